/-
  Helper lemmas for C08 (closing handshake).

  Part 1  what is a Close frame / a write on the trace; the trace predicate `quiet`
          ("nothing is put on the wire after a Close frame") and its list-level consequences.
  Part 2  the relation `Cl` (the invariant `Inv` is preserved; `closing ∨ closed` never drops
          back) proved for every function of the core model up to `run`, in the style of
          Proofs/Step.lean.
  Part 3  exact computations of the pieces of the handshake (`wsClose`, refused sends, `onClose`
          in both directions, EOF while closing, the graceful end).
  Part 4  concrete data for the non-vacuity examples of Properties/C08.lean.
-/
import Lomond.Proofs.Step
import Lomond.Proofs.Release
set_option linter.unusedSimpArgs false
set_option linter.unusedVariables false
namespace Lomond.Core
open Lomond

/-! ## Part 1: traces -/

/-- the opcode nibble of the first header byte is 8 (Close) -/
def isCloseBytes : Bytes → Bool
  | b :: _ => b % 16 == 8
  | [] => false

/-- the opcode nibble of the first header byte is 0, 1 or 2 (continuation, text, binary) -/
def isDataBytes : Bytes → Bool
  | b :: _ => decide (b % 16 ≤ 2)
  | [] => false

/-- anything handed to `sendall` (successfully or not) -/
def Obs.isWrite : Obs → Bool
  | .wr _ => true
  | .wrz _ _ => true
  | .wrFail _ => true
  | _ => false

/-- a Close frame handed to `sendall` (successfully **or not**: a failed `sendall` may have put
    part of it on the wire) -/
def Obs.isClose : Obs → Bool
  | .wr d => isCloseBytes d
  | .wrFail d => isCloseBytes d
  | .wrz op _ => op == 8
  | _ => false

/-- a Close frame written successfully -/
def Obs.isCloseWr : Obs → Bool
  | .wr d => isCloseBytes d
  | .wrz op _ => op == 8
  | _ => false

/-- a data frame written successfully (uncompressed: opcode 0/1/2; compressed frames are data) -/
def Obs.isDataWr : Obs → Bool
  | .wr d => isDataBytes d
  | .wrz _ _ => true
  | _ => false

theorem Obs.isClose_isWrite {o : Obs} (h : o.isClose = true) : o.isWrite = true := by
  cases o <;> simp_all [Obs.isClose, Obs.isWrite]

theorem Obs.isCloseWr_isClose {o : Obs} (h : o.isCloseWr = true) : o.isClose = true := by
  cases o <;> simp_all [Obs.isClose, Obs.isCloseWr]

theorem Obs.isDataWr_isWrite {o : Obs} (h : o.isDataWr = true) : o.isWrite = true := by
  cases o <;> simp_all [Obs.isDataWr, Obs.isWrite]

/-- the trace (newest first) contains a Close frame -/
def hasClose (tr : List Obs) : Bool := tr.any Obs.isClose

/-- no entry of `l` is a write -/
def noWrite (l : List Obs) : Bool := l.all (fun o => !o.isWrite)

/-- newest first: every write is preceded by no Close frame, i.e. **nothing is handed to
    `sendall` after a Close frame** -/
def quiet : List Obs → Bool
  | [] => true
  | o :: tr => (!o.isWrite || !hasClose tr) && quiet tr

theorem hasClose_cons (o : Obs) (tr : List Obs) : hasClose (o :: tr) = (o.isClose || hasClose tr) := by
  simp [hasClose]

theorem hasClose_append_noWrite (l tr : List Obs) (h : noWrite l = true) :
    hasClose (l ++ tr) = hasClose tr := by
  induction l with
  | nil => rfl
  | cons o l ih =>
    simp only [noWrite, List.all_cons, Bool.and_eq_true, Bool.not_eq_true'] at h
    have ho : o.isClose = false := by
      cases hc : o.isClose
      · rfl
      · have := Obs.isClose_isWrite hc; rw [h.1] at this; cases this
    rw [List.cons_append, hasClose_cons, ho, Bool.false_or]
    exact ih (by simpa [noWrite] using h.2)

theorem quiet_append_noWrite (l tr : List Obs) (h : noWrite l = true) :
    quiet (l ++ tr) = quiet tr := by
  induction l with
  | nil => rfl
  | cons o l ih =>
    simp only [noWrite, List.all_cons, Bool.and_eq_true, Bool.not_eq_true'] at h
    rw [List.cons_append, quiet, h.1]
    simp only [Bool.not_false, Bool.true_or, Bool.true_and]
    exact ih (by simpa [noWrite] using h.2)

theorem filter_length_mono {α : Type} (p q : α → Bool) (h : ∀ a, p a = true → q a = true) (l : List α) :
    (l.filter p).length ≤ (l.filter q).length := by
  induction l with
  | nil => simp
  | cons a l ih =>
    simp only [List.filter_cons]
    cases hp : p a
    · cases hq : q a <;> simp <;> omega
    · simp [h a hp]; omega

/-- at most one Close frame in a quiet trace -/
theorem quiet_count (tr : List Obs) (h : quiet tr = true) : (tr.filter Obs.isClose).length ≤ 1 := by
  induction tr with
  | nil => simp
  | cons o tr ih =>
    simp only [quiet, Bool.and_eq_true, Bool.or_eq_true, Bool.not_eq_true'] at h
    cases hc : o.isClose
    · simp only [List.filter_cons, hc]; exact ih h.2
    · have hw := Obs.isClose_isWrite hc
      have hn : hasClose tr = false := by
        rcases h.1 with h1 | h1
        · rw [hw] at h1; cases h1
        · exact h1
      have : tr.filter Obs.isClose = [] := by
        rw [List.filter_eq_nil_iff]
        intro a ha hca
        have : hasClose tr = true := by
          simp only [hasClose, List.any_eq_true]; exact ⟨a, ha, hca⟩
        rw [hn] at this; cases this
      simp [List.filter_cons, hc, this]

/-- in a quiet trace (newest first) nothing newer than a Close frame is a write -/
theorem quiet_after (a : List Obs) (c : Obs) (b : List Obs) (h : quiet (a ++ c :: b) = true)
    (hc : c.isClose = true) : ∀ o ∈ a, o.isWrite = false := by
  induction a with
  | nil => intro o ho; cases ho
  | cons x a ih =>
    simp only [List.cons_append, quiet, Bool.and_eq_true, Bool.or_eq_true, Bool.not_eq_true'] at h
    have hh : hasClose (a ++ c :: b) = true := by
      simp only [hasClose, List.any_eq_true]; exact ⟨c, by simp, hc⟩
    intro o ho
    rcases List.mem_cons.mp ho with rfl | ho
    · rcases h.1 with h1 | h1
      · exact h1
      · rw [hh] at h1; cases h1
    · exact ih h.2 o ho

/-- the two consequences, for a trace read oldest first -/
theorem quiet_oldest_first (tr : List Obs) (h : quiet tr = true) :
    (tr.reverse.filter Obs.isClose).length ≤ 1 ∧
    ∀ pre c post, tr.reverse = pre ++ c :: post → c.isClose = true → ∀ o ∈ post, o.isWrite = false := by
  refine ⟨?_, ?_⟩
  · rw [List.filter_reverse, List.length_reverse]; exact quiet_count tr h
  · intro pre c post e hc o ho
    have e2 : tr = post.reverse ++ c :: pre.reverse := by
      have := congrArg List.reverse e
      simpa using this
    rw [e2] at h
    exact quiet_after _ _ _ h hc o (by simpa using ho)

/-! ## Part 2: the invariant and the relation `Cl` -/

/-- **the invariant**: nothing was handed to `sendall` after a Close frame, and if a Close frame
    was handed to `sendall` then the websocket is closing or closed -/
def Inv (s : Sys) : Prop :=
  quiet s.trace = true ∧ (hasClose s.trace = true → s.closing = true ∨ s.closed = true)

/-- the websocket has started (or finished) closing -/
def Shut (s : Sys) : Prop := s.closing = true ∨ s.closed = true

/-- what every library step guarantees: the invariant is kept, and "closing or closed" never
    drops back -/
structure Cl (s s' : Sys) : Prop where
  inv : Inv s → Inv s'
  keep : Shut s → Shut s'

theorem cl_po : PO Cl where
  refl s := ⟨id, id⟩
  trans := fun h1 h2 => ⟨fun h => h2.inv (h1.inv h), fun h => h2.keep (h1.keep h)⟩

/-- a step that appends only non-writes to the trace and keeps `closing ∨ closed` -/
theorem Cl.of_ext {s s' : Sys} (l : List Obs) (ht : s'.trace = l ++ s.trace) (hl : noWrite l = true)
    (hk : Shut s → Shut s') : Cl s s' := by
  refine ⟨?_, hk⟩
  intro ⟨hq, hc⟩
  refine ⟨?_, ?_⟩
  · rw [ht, quiet_append_noWrite l _ hl]; exact hq
  · intro h
    rw [ht, hasClose_append_noWrite l _ hl] at h
    exact hk (hc h)

/-- effect of one `session.write` on what C08 looks at; `cl` = the bytes are a Close frame -/
structure WEff (cl : Bool) (s s' : Sys) : Prop where
  closing : s'.closing = s.closing
  closed : s'.closed = s.closed
  tr : s'.trace = s.trace ∨
       (s.closing = false ∧ s.closed = false ∧ ∃ o, s'.trace = o :: s.trace ∧ (o.isClose = true → cl = true))

theorem Inv.noClose {s : Sys} (h : Inv s) (h1 : s.closing = false) (h2 : s.closed = false) :
    hasClose s.trace = false := by
  cases hc : hasClose s.trace
  · rfl
  · rcases h.2 hc with h3 | h3
    · rw [h1] at h3; cases h3
    · rw [h2] at h3; cases h3

/-- a write of anything but a Close frame keeps the invariant -/
theorem WEff.cl {s s' : Sys} (h : WEff false s s') : Cl s s' := by
  refine ⟨?_, ?_⟩
  · intro hi
    rcases h.tr with e | ⟨h1, h2, o, e, ho⟩
    · refine ⟨by rw [e]; exact hi.1, ?_⟩
      intro hc; rw [e] at hc
      have := hi.2 hc
      unfold Shut at *
      rw [h.closing, h.closed]; exact this
    · have hn := hi.noClose h1 h2
      have hoc : o.isClose = false := by
        cases hx : o.isClose
        · rfl
        · cases ho hx
      refine ⟨?_, ?_⟩
      · rw [e, quiet, hn]; simp [hi.1]
      · intro hc; rw [e, hasClose_cons, hoc, hn] at hc; cases hc
  · intro hs; unfold Shut at *; rw [h.closing, h.closed]; exact hs

/-- a write of a Close frame (or of anything) followed by `closing := true` keeps the invariant -/
theorem WEff.cl_closing {cl : Bool} {s s1 : Sys} (h : WEff cl s s1) (t : Option Nat) :
    Cl s { s1 with closing := true, sentCloseTime := t } := by
  refine ⟨?_, fun _ => Or.inl rfl⟩
  intro hi
  refine ⟨?_, fun _ => Or.inl rfl⟩
  show quiet s1.trace = true
  rcases h.tr with e | ⟨h1, h2, o, e, _⟩
  · rw [e]; exact hi.1
  · have hn := hi.noClose h1 h2
    rw [e, quiet, hn]; simp [hi.1]

/-- is what `write data z` hands to `sendall` a Close frame? -/
def closeLike (data : Bytes) (z : Option (Nat × Bytes)) : Bool :=
  isCloseBytes data ||
  match z with
  | none => false
  | some (op, _) => op == 8

theorem write_ok (d : Bytes) (z : Option (Nat × Bytes)) (s : Sys) : ∃ r s', write d z s = .ok r s' := by
  unfold write; simp only []; splits <;> exact ⟨_, _, rfl⟩

theorem weff_write (d : Bytes) (z : Option (Nat × Bytes)) (s : Sys) :
    WEff (closeLike d z) s (write d z s).state := by
  unfold write
  rcases z with _ | ⟨op, plain⟩
  all_goals simp only []
  all_goals splits
  all_goals simp only [Res.state_ok]
  all_goals first
    | exact ⟨rfl, rfl, Or.inl rfl⟩
    | (refine ⟨rfl, rfl, Or.inr ⟨by simp_all, by simp_all, _, rfl, ?_⟩⟩
       intro h; simp [Obs.isClose, closeLike] at h ⊢; simp [h])

theorem build_first_byte (op : Nat) (pl key bs : Bytes) (h : Frame.build op pl key = some bs) :
    ∃ r, bs = (128 + op) :: r := by
  unfold Frame.build buildHeader byte0 at h
  have hb : 1 * 128 + 0 * 64 + 0 * 32 + 0 * 16 + op = 128 + op := by omega
  rw [hb] at h
  split at h
  · simp only [Option.map_some, Option.some.injEq] at h
    exact ⟨_, by rw [← h]; rfl⟩
  · split at h
    · simp only [Option.map_some, Option.some.injEq] at h
      exact ⟨_, by rw [← h]; rfl⟩
    · split at h
      · simp only [Option.map_some, Option.some.injEq] at h
        exact ⟨_, by rw [← h]; rfl⟩
      · cases h

theorem isCloseBytes_build (op : Nat) (pl key bs : Bytes) (hop : op < 16)
    (h : Frame.build op pl key = some bs) : isCloseBytes bs = (op == 8) := by
  obtain ⟨r, rfl⟩ := build_first_byte op pl key bs h
  unfold isCloseBytes
  have : (128 + op) % 16 = op := by omega
  simp only [this]

theorem sendFrame_ok (op : Nat) (pl : Bytes) (c : Option Bytes) (s : Sys) :
    ∃ r s', sendFrame op pl c s = .ok r s' := by
  unfold sendFrame; simp only []
  splits
  all_goals first | exact write_ok _ _ _ | exact ⟨_, _, rfl⟩

theorem sendFrame_not_err (op : Nat) (pl : Bytes) (c : Option Bytes) (s : Sys) (x : Exn) (s' : Sys) :
    sendFrame op pl c s ≠ .err x s' := by
  obtain ⟨r, s1, e⟩ := sendFrame_ok op pl c s
  rw [e]; intro h; cases h

theorem weff_sendFrame (op : Nat) (pl : Bytes) (c : Option Bytes) (hop : op < 16) (s : Sys) :
    WEff (op == 8) s (sendFrame op pl c s).state := by
  unfold sendFrame; simp only []
  split
  · split
    · rename_i bs hb
      have := weff_write bs none { s with keyCtr := s.keyCtr + 1 }
      rw [show closeLike bs none = (op == 8) from by
        simp only [closeLike, Bool.or_false]; exact isCloseBytes_build _ _ _ _ hop hb] at this
      exact ⟨this.closing, this.closed, this.tr⟩
    · exact ⟨rfl, rfl, Or.inl rfl⟩
  · rename_i plain
    have := weff_write [] (some (op, plain)) { s with keyCtr := s.keyCtr + 1 }
    rw [show closeLike [] (some (op, plain)) = (op == 8) from by simp [closeLike, isCloseBytes]] at this
    exact ⟨this.closing, this.closed, this.tr⟩

/-- leaf tactic: `Cl s s'` for an explicit `s'` that adds at most one non-write to the trace -/
macro "cl_leaf" : tactic =>
  `(tactic| ((try simp only [Res.state_ok, Res.state_err])
             first
              | exact cl_po.refl _
              | exact Cl.of_ext [] rfl rfl id
              | exact Cl.of_ext [_] rfl rfl id
              | exact Cl.of_ext [] rfl rfl (fun _ => Or.inr rfl)
              | exact Cl.of_ext [] rfl rfl (fun _ => Or.inl rfl)))

theorem cl_closeSocket : Spec Cl closeSocket := by
  intro s; unfold closeSocket; splits <;> cl_leaf

/-- writing anything that is not a Close frame -/
theorem cl_write (d : Bytes) (z : Option (Nat × Bytes)) (h : closeLike d z = false) : Spec Cl (write d z) := by
  intro s; have := weff_write d z s; rw [h] at this; exact this.cl

/-- sending a frame with any opcode other than Close -/
theorem cl_sendFrame (op : Nat) (pl : Bytes) (c : Option Bytes) (hop : op < 16 ∧ op ≠ 8) :
    Spec Cl (sendFrame op pl c) := by
  intro s; have := weff_sendFrame op pl c hop.1 s
  rw [show (op == 8) = false from by simp [hop.2]] at this; exact this.cl

theorem weff_sendFrame_ok {op : Nat} {pl : Bytes} {c : Option Bytes} (hop : op < 16) {s s' : Sys} {r : ActRes}
    (h : sendFrame op pl c s = .ok r s') : WEff (op == 8) s s' := by
  have := weff_sendFrame op pl c hop s; rw [h] at this; exact this

theorem cl_wsClose (c : Option Nat) (r : Arg) : Spec Cl (wsClose c r) := by
  intro s; unfold wsClose
  splits
  all_goals first
    | cl_leaf
    | (rename_i h
       simp only [Res.state_ok]
       exact (weff_sendFrame_ok (by decide) h).cl_closing _)
    | (rename_i h; exact absurd h (sendFrame_not_err _ _ _ _ _ _))

theorem cl_sendData (op : Nat) (pl : Bytes) (c : Bool) (hop : op < 16 ∧ op ≠ 8) : Spec Cl (sendData op pl c) := by
  intro s; unfold sendData; split <;> exact cl_sendFrame _ _ _ hop s

theorem cl_log (o : Obs) (h : o.isWrite = false) : Spec Cl (log o) := by
  intro s; unfold log modS
  exact Cl.of_ext [o] rfl (by simp [noWrite, h]) id

theorem cl_logRes {m : M ActRes} (h : Spec Cl m) : Spec Cl (logRes m) := by
  unfold logRes
  exact spec_bind cl_po h (fun r => cl_log _ rfl)

theorem cl_doAct (a : Act) : Spec Cl (doAct a) := by
  unfold doAct
  split
  all_goals first
    | (apply cl_logRes
       first
        | exact spec_pure cl_po _
        | exact cl_wsClose _ _
        | exact cl_sendData _ _ _ (by decide)
        | (split
           · exact spec_pure cl_po _
           · first | exact cl_sendData _ _ _ (by decide) | exact cl_sendFrame _ _ _ (by decide))
        | exact spec_bind cl_po cl_closeSocket (fun _ => spec_pure cl_po _))
    | (intro s; cl_leaf)

theorem cl_doActs (as : List Act) : Spec Cl (doActs as) := by
  induction as with
  | nil => exact spec_pure cl_po ()
  | cons a r ih => unfold doActs; exact spec_bind cl_po (cl_doAct a) (fun _ => ih)

theorem cl_yieldEv (e : Event) : Spec Cl (yieldEv e) := by
  unfold yieldEv
  apply spec_bind cl_po
  · apply spec_modS; intro s; cl_leaf
  · intro _; apply spec_bind cl_po (spec_getS cl_po); intro s; exact cl_doActs _

theorem cl_checkPoll : Spec Cl checkPoll := by
  unfold checkPoll
  refine spec_getS_bind cl_po (fun s => ?_)
  simp only []
  splits
  all_goals first
    | exact spec_pure cl_po _
    | (refine spec_bind cl_po (spec_modS ?_) (fun _ => cl_yieldEv _); intro s; cl_leaf)

theorem cl_checkAutoPing : Spec Cl checkAutoPing := by
  unfold checkAutoPing
  refine spec_getS_bind cl_po (fun s => ?_)
  simp only []
  split
  · refine spec_bind cl_po (spec_modS ?_) (fun _ => spec_bind cl_po (cl_sendFrame _ _ _ (by decide)) (fun _ => spec_pure cl_po _))
    intro s; cl_leaf
  · exact spec_pure cl_po _

theorem cl_checkPingTimeout : Spec Cl checkPingTimeout := by
  unfold checkPingTimeout
  refine spec_getS_bind cl_po (fun s => ?_)
  simp only []
  split
  · exact spec_bind cl_po (cl_yieldEv _) (fun _ => spec_throwE cl_po _)
  · exact spec_pure cl_po _

theorem cl_checkCloseTimeout : Spec Cl checkCloseTimeout := by
  unfold checkCloseTimeout
  refine spec_getS_bind cl_po (fun s => ?_)
  simp only []
  splits
  all_goals first | exact spec_pure cl_po _ | exact spec_throwE cl_po _

theorem cl_regular : Spec Cl regular := by
  unfold regular
  apply spec_bind cl_po (spec_getS cl_po); intro s
  split
  · exact spec_bind cl_po cl_checkPoll (fun _ => spec_bind cl_po cl_checkAutoPing
      (fun _ => spec_bind cl_po cl_checkPingTimeout (fun _ => cl_checkCloseTimeout)))
  · exact spec_pure cl_po _

theorem cl_onEvent (e : Event) : Spec Cl (onEvent e) := by
  intro s; unfold onEvent
  splits
  all_goals first
    | cl_leaf
    | (rename_i h; exact (cl_sendFrame _ _ _ (by decide)).ok h)
    | (rename_i h; exact (cl_sendFrame _ _ _ (by decide)).err h)

theorem cl_onDisconnect : Spec Cl onDisconnect := by
  unfold onDisconnect
  apply spec_bind cl_po cl_closeSocket
  intro _; apply spec_modS; intro s; cl_leaf

theorem cl_feedYield (b : Bool) (e : Event) : Spec Cl (feedYield b e) := by
  unfold feedYield
  apply spec_tryC cl_po
  · exact spec_bind cl_po (cl_onEvent e) (fun _ => spec_bind cl_po (cl_yieldEv e) (fun _ => cl_regular))
  · intro x
    apply spec_bind cl_po
    · split
      · exact cl_onDisconnect
      · exact spec_pure cl_po _
    · intro _; exact spec_throwE cl_po _

theorem cl_inflateMessage (j : Bytes) : Spec Cl (inflateMessage j) := by
  intro s; unfold inflateMessage; simp only []; splits <;> cl_leaf

theorem cl_buildMessage (fs : List Frame) : Spec Cl (buildMessage fs) := by
  unfold buildMessage
  split
  · exact spec_throwE cl_po _
  · simp only []
    refine spec_getS_bind cl_po (fun s => ?_)
    refine spec_bind cl_po ?_ (fun _ => spec_liftE cl_po _)
    split
    · exact cl_inflateMessage _
    · exact spec_pure cl_po _

theorem cl_checkCloseCode (c : Option Nat) : Spec Cl (checkCloseCode c) := by
  unfold checkCloseCode
  splits <;> first | exact spec_pure cl_po _ | exact spec_throwE cl_po _

theorem cl_raiseIfArgError (r : ActRes) : Spec Cl (raiseIfArgError r) := by
  unfold raiseIfArgError
  split <;> first | exact spec_pure cl_po _ | exact spec_throwE cl_po _

theorem cl_onClose (c : Option Nat) (r : List Nat) : Spec Cl (onClose c r) := by
  unfold onClose
  refine spec_bind cl_po (cl_checkCloseCode c) (fun _ => ?_)
  refine spec_getS_bind cl_po (fun s => ?_)
  split
  · exact spec_pure cl_po _
  · split
    · refine spec_bind cl_po (cl_feedYield _ _) (fun _ => spec_modS ?_); intro s; cl_leaf
    · refine spec_bind cl_po (cl_feedYield _ _) (fun _ => spec_bind cl_po (cl_wsClose _ _) (fun r =>
        spec_bind cl_po (cl_raiseIfArgError r) (fun _ => spec_modS ?_)))
      intro s; cl_leaf

theorem cl_onMessage (m : Msg) : Spec Cl (onMessage m) := by
  unfold onMessage
  split <;> first | exact cl_onClose _ _ | exact cl_feedYield _ _ | exact spec_pure cl_po _

theorem cl_onDataFrame (f : Frame) : Spec Cl (onDataFrame f) := by
  unfold onDataFrame
  refine spec_getS_bind cl_po (fun s => ?_)
  split
  · exact spec_throwE cl_po _
  · split
    · exact spec_throwE cl_po _
    · refine spec_bind cl_po (spec_modS ?_) (fun _ => ?_)
      · intro s; cl_leaf
      · split
        · refine spec_getS_bind cl_po (fun s => spec_bind cl_po (cl_buildMessage _) (fun m =>
            spec_bind cl_po (cl_onMessage m) (fun _ => spec_modS ?_)))
          intro s; cl_leaf
        · exact spec_pure cl_po _

theorem cl_notClosed : Spec Cl notClosed := by
  intro s; unfold notClosed; cl_leaf

theorem cl_onFrame (f : Frame) : Spec Cl (onFrame f) := by
  unfold onFrame
  split
  · exact spec_bind cl_po (cl_buildMessage _) (fun m => cl_onMessage m)
  · exact cl_onDataFrame _

theorem cl_onOut (o : Out) : Spec Cl (onOut o) := by
  unfold onOut
  split
  · refine spec_getS_bind cl_po (fun s => ?_)
    split
    · refine spec_bind cl_po (spec_modS ?_) (fun _ => spec_bind cl_po cl_onDisconnect (fun _ =>
        spec_bind cl_po (cl_feedYield _ _) (fun _ => spec_pure cl_po _)))
      intro s; cl_leaf
    · refine spec_bind cl_po (spec_modS ?_) (fun _ => spec_bind cl_po (cl_feedYield _ _) (fun _ =>
        spec_bind cl_po (spec_modS ?_) (fun _ => cl_notClosed)))
      · intro s; cl_leaf
      · intro s; cl_leaf
  · exact spec_bind cl_po (cl_onFrame _) (fun _ => cl_notClosed)

theorem cl_setP (s : Sys) (p' : PState) : Cl s { s with p := p' } := Cl.of_ext [] rfl rfl id

theorem cl_feedLoop (data : Bytes) : Spec Cl (feedLoop data) := by
  induction h : data.length using Nat.strongRecOn generalizing data with
  | _ n ih =>
    intro s
    rw [feedLoop]
    by_cases hd : data = []
    · simp only [hd, dite_true]; cl_leaf
    · simp only [hd, dite_false]
      have hlt : (data.drop (s.p.remPred + 1)).length < n := by
        have : data.length ≠ 0 := fun hl => hd (List.eq_nil_of_length_eq_zero hl)
        simp only [List.length_drop]; omega
      cases hb : biteBytes s.cfg.v s.p (data.take (s.p.remPred + 1)) with
      | error x =>
        simp only [Res.state_err]
        exact cl_setP s _
      | ok r =>
        obtain ⟨p', out⟩ := r
        have hs1 : Cl s { s with p := p' } := cl_setP s p'
        cases out with
        | none =>
          simp only
          exact cl_po.trans hs1 (ih _ hlt _ rfl _)
        | some o =>
          simp only
          have ho := cl_onOut o { s with p := p' }
          cases hr : onOut o { s with p := p' } with
          | err x s2 => rw [hr] at ho; simp only [Res.state_err] at ho ⊢; exact cl_po.trans hs1 ho
          | ok go s2 =>
            rw [hr] at ho; simp only [Res.state_ok] at ho
            cases go with
            | true => simp only; exact cl_po.trans hs1 (cl_po.trans ho (ih _ hlt _ rfl _))
            | false => simp only [Res.state_ok]; exact cl_po.trans hs1 ho

theorem cl_afterHeader (rest : Bytes) (out : Option Out) : Spec Cl (afterHeader rest out) := by
  unfold afterHeader
  split
  · refine spec_bind cl_po (cl_onOut _) (fun go => ?_)
    split
    · exact spec_bind cl_po (cl_feedLoop _) (fun _ => spec_pure cl_po _)
    · exact spec_pure cl_po _
  · exact spec_bind cl_po (cl_feedLoop _) (fun _ => spec_pure cl_po _)

theorem cl_feedHeader (data : Bytes) : Spec Cl (feedHeader data) := by
  intro s; unfold feedHeader; simp only []
  split
  · split
    · cl_leaf
    · simp only [Res.state_ok]; exact cl_setP s _
  · split
    · cl_leaf
    · split
      · cl_leaf
      · rename_i p' out hr
        have h1 : Cl s { s with p := p' } := cl_setP s p'
        exact cl_po.trans h1 (cl_afterHeader _ _ _)

theorem cl_feedBody (data : Bytes) : Spec Cl (feedBody data) := by
  intro s; unfold feedBody
  split
  · exact cl_feedHeader data s
  · have := cl_feedLoop data s
    split <;> (rename_i h; rw [h] at this; simpa using this)

theorem cl_feedHandler (x : Exn) : Spec Cl (feedHandler x) := by
  unfold feedHandler
  split
  · exact spec_bind cl_po (cl_feedYield _ _) (fun _ => spec_throwE cl_po _)
  · exact spec_bind cl_po (cl_feedYield _ _) (fun _ => spec_throwE cl_po _)
  · exact spec_bind cl_po (cl_feedYield _ _) (fun _ => spec_bind cl_po (cl_wsClose _ _) (fun r =>
      spec_bind cl_po (cl_raiseIfArgError r) (fun _ => spec_throwE cl_po _)))
  · exact spec_throwE cl_po _

theorem cl_unwrapOuter (x : Exn) : Spec Cl (unwrapOuter x) := by
  unfold unwrapOuter; split <;> exact spec_throwE cl_po _

theorem cl_wsFeed (data : Bytes) : Spec Cl (wsFeed data) := by
  intro s; unfold wsFeed
  split
  · cl_leaf
  · exact spec_tryC cl_po (spec_tryC cl_po (cl_feedBody data) cl_feedHandler) cl_unwrapOuter s

theorem cl_onEof : Spec Cl onEof := by
  intro s; unfold onEof; split <;> cl_leaf

theorem cl_recvStep (o : RecvOutcome) : Spec Cl (recvStep o) := by
  intro s; unfold recvStep
  split
  · exact cl_onEof s
  · split
    · cl_leaf
    · cl_leaf
    · exact cl_onEof s
    · rename_i bs
      split
      · exact cl_onEof s
      · have := cl_wsFeed bs s
        split <;> (rename_i h; rw [h] at this; simpa using this)

theorem cl_tick (s : Sys) (dt : Nat) : Cl s (tick s dt) := by
  unfold tick
  by_cases h : dt ≠ 0
  · exact Cl.of_ext [.tick (s.now + dt)] (by simp [h]) rfl id
  · exact Cl.of_ext [] (by simp [h]) rfl id

theorem cl_loop (env : List EnvStep) : Spec Cl (loop env) := by
  induction env with
  | nil => intro s; unfold loop; split <;> cl_leaf
  | cons st rest ih =>
    intro s; unfold loop
    split
    · cl_leaf
    · split
      · cl_leaf
      · rename_i dt readable
        have h0 := cl_tick s dt
        have h1 := cl_regular (tick s dt)
        unfold regularTop
        split
        · rename_i x s2 hr; rw [hr] at h1; exact cl_po.trans h0 h1
        · rename_i u s2 hr; rw [hr] at h1
          simp only [Res.state_ok] at h1
          split
          · exact cl_po.trans h0 (cl_po.trans h1 (ih s2))
          · rename_i o
            have h2 := cl_recvStep o s2
            split
            · rename_i x s3 hr2; rw [hr2] at h2; exact cl_po.trans h0 (cl_po.trans h1 h2)
            · rename_i s3 hr2; rw [hr2] at h2
              exact cl_po.trans h0 (cl_po.trans h1 (cl_po.trans h2 (ih s3)))
            · rename_i s3 hr2; rw [hr2] at h2; exact cl_po.trans h0 (cl_po.trans h1 h2)

/-! ### from the loop to `run` -/

theorem cl_selClose : Spec Cl selClose := by
  intro s; unfold selClose; split <;> cl_leaf

theorem cl_onLoopEnd (r : Option Exn) : Spec Cl (onLoopEnd r) := by
  unfold onLoopEnd
  split
  all_goals first
    | exact spec_bind cl_po cl_closeSocket (fun _ => cl_yieldEv _)
    | exact spec_throwE cl_po _

theorem cl_runBody (env : List EnvStep) : Spec Cl (runBody env) := by
  unfold runBody
  refine spec_bind cl_po (spec_tryC cl_po (spec_bind cl_po (cl_loop env) (fun _ => spec_pure cl_po _))
    (fun x => spec_pure cl_po _)) (fun r => cl_onLoopEnd r)

theorem cl_runFinally (x : Exn) : Spec Cl (runFinally x) := by
  unfold runFinally
  refine spec_getS_bind cl_po (fun s => ?_)
  refine spec_bind cl_po ?_ (fun _ => spec_bind cl_po cl_selClose (fun _ => spec_throwE cl_po _))
  split
  · exact cl_closeSocket
  · exact spec_pure cl_po _

theorem cl_runLoop : Spec Cl runLoop := by
  unfold runLoop
  refine spec_getS_bind cl_po (fun s => ?_)
  exact spec_tryC cl_po (spec_bind cl_po (cl_runBody _) (fun _ => cl_selClose)) cl_runFinally

theorem cl_yieldConnected (proxy : Bool) : Spec Cl (yieldConnected proxy) := by
  unfold yieldConnected
  refine spec_getS_bind cl_po (fun s => ?_)
  split
  · exact spec_tryC cl_po (cl_yieldEv _) (fun x => spec_bind cl_po cl_closeSocket (fun _ => spec_throwE cl_po _))
  · exact cl_yieldEv _

/-- `m >>= f` at one start state: the continuation only has to be handled from the states that
    `m` really reaches from `s` -/
theorem bind_at {R : Sys → Sys → Prop} (po : PO R) {m : M α} {f : α → M β} {s : Sys}
    (hm : R s (m s).state) (hf : ∀ a s1, m s = .ok a s1 → R s1 (f a s1).state) :
    R s ((m >>= f) s).state := by
  cases hms : m s with
  | ok a s1 =>
    rw [bind_ok hms]
    rw [hms] at hm
    exact po.trans hm (hf a s1 hms)
  | err x s1 => rw [bind_err hms]; rw [hms] at hm; exact hm

/-- the upgrade request is the only thing written that is not a frame: the invariant needs it
    not to look like a Close frame (the real one starts with `GET `) -/
def ReqOk (s : Sys) : Prop := isCloseBytes s.cfg.request = false

theorem cl_afterConnect (proxy : Bool) (s : Sys) (hr : ReqOk s) : Cl s (afterConnect proxy s).state := by
  unfold afterConnect
  refine bind_at cl_po (Cl.of_ext [] rfl rfl id) ?_
  intro _ s1 e1
  have hs1 : s1 = { s with sockOpen := true } := by cases e1; rfl
  refine bind_at cl_po (cl_po.refl _) ?_
  intro s2 s3 e2
  cases e2
  refine bind_at cl_po ?_ ?_
  · have := weff_write s1.cfg.request none s1
    rw [show closeLike s1.cfg.request none = false from by
      rw [hs1]; simp only [closeLike, Bool.or_false]; exact hr] at this
    exact this.cl
  · intro r s4 _
    split
    · exact spec_bind cl_po cl_closeSocket (fun _ => cl_yieldEv _) s4
    · refine spec_bind cl_po (cl_yieldConnected proxy) (fun _ => spec_bind cl_po
        (spec_modS ?_) (fun _ => cl_runLoop)) s4
      intro s; cl_leaf

theorem cl_runLoopNoSel : Spec Cl runLoopNoSel := by
  unfold runLoopNoSel
  exact spec_tryC cl_po (spec_bind cl_po (cl_onLoopEnd _) (fun _ => cl_selClose)) cl_runFinally

theorem cl_afterConnectNoSel (proxy : Bool) (s : Sys) (hr : ReqOk s) : Cl s (afterConnectNoSel proxy s).state := by
  unfold afterConnectNoSel
  refine bind_at cl_po (Cl.of_ext [] rfl rfl id) ?_
  intro _ s1 e1
  have hs1 : s1 = { s with sockOpen := true } := by cases e1; rfl
  refine bind_at cl_po (cl_po.refl _) ?_
  intro s2 s3 e2
  cases e2
  refine bind_at cl_po ?_ ?_
  · have := weff_write s1.cfg.request none s1
    rw [show closeLike s1.cfg.request none = false from by
      rw [hs1]; simp only [closeLike, Bool.or_false]; exact hr] at this
    exact this.cl
  · intro r s4 _
    split
    · exact spec_bind cl_po cl_closeSocket (fun _ => cl_yieldEv _) s4
    · refine spec_bind cl_po (cl_yieldConnected proxy) (fun _ => spec_bind cl_po
        (spec_modS ?_) (fun _ => cl_runLoopNoSel)) s4
      intro s; cl_leaf

theorem cl_run (s : Sys) (hr : ReqOk s) : Cl s (run s).state := by
  unfold run
  refine bind_at cl_po (cl_yieldEv _ s) ?_
  intro _ s1 e1
  have hcfg : s1.cfg = s.cfg := ((step_yieldEv .connecting).ok e1).cfg
  refine bind_at cl_po (cl_po.refl _) ?_
  intro s2 s3 e2
  cases e2
  cases hcn : s1.cfg.connect with
  | socketFail => exact cl_yieldEv _ _
  | otherFail => exact cl_yieldEv _ _
  | ok proxy => exact cl_afterConnect _ _ (by unfold ReqOk; rw [hcfg]; exact hr)
  | selFail proxy => exact cl_afterConnectNoSel _ _ (by unfold ReqOk; rw [hcfg]; exact hr)

/-- **the invariant holds at the end of every connection** -/
theorem runAll_inv (cfg : Cfg) (react : React) (env : List EnvStep) (hreq : isCloseBytes cfg.request = false) :
    Inv (runAll cfg react env) := by
  have h0 : Inv { cfg := cfg, react := react, env := env } := ⟨rfl, fun h => by cases h⟩
  have h := (cl_run { cfg := cfg, react := react, env := env } hreq).inv h0
  unfold runAll
  simp only []
  generalize run { cfg := cfg, react := react, env := env } = r at h
  have cs : ∀ s : Sys, Inv s → Inv (match closeSocket s with | .ok _ s' => s' | .err _ s' => s') := by
    intro s hs
    have := (cl_closeSocket s).inv hs
    cases hc : closeSocket s <;> (rw [hc] at this; exact this)
  have inc : ∀ s : Sys, Inv s → Inv { s with trace := .incomplete :: s.trace } :=
    fun s hs => (Cl.of_ext (s' := { s with trace := .incomplete :: s.trace }) [.incomplete] rfl rfl id).inv hs
  cases r with
  | ok a s => exact h
  | err x s =>
    simp only [Res.state_err] at h
    cases x with
    | genExit => simp only []; split; exact cs s h; exact h
    | outer y =>
      cases y with
      | genExit => simp only []; split; exact cs s h; exact h
      | _ => exact inc s h
    | _ => exact inc s h

/-! ## Part 3: the pieces of the handshake, computed exactly -/

/-- the bytes `close(code, reason)` puts after the code; `none` = no `.encode` (TypeError class) -/
def reasonBytes : Arg → Option Bytes
  | .bytes b => some b
  | .str cps => some (encodeReplace cps)
  | .other => none

/-- arguments from which `close()` can build a valid Close frame -/
def CloseArgsOk (code : Option Nat) (rb : Bytes) : Prop :=
  (∀ c, code = some c → c < 65536) ∧ (buildClosePayload code rb).length ≤ 125

/-- the Close frame for a payload of at most 125 bytes -/
def closeFrame (payload key : Bytes) : Bytes :=
  136 :: (128 + payload.length) :: (key ++ maskPayload key payload)

theorem build_close (payload key : Bytes) (h : payload.length ≤ 125) :
    Frame.build Gen.opClose payload key = some (closeFrame payload key) := by
  unfold Frame.build buildHeader byte0 closeFrame
  have : payload.length < 126 := by omega
  simp [this, Gen.opClose]

/-- the websocket accepts writes -/
def Open (s : Sys) : Prop := s.sockOpen = true ∧ s.closing = false ∧ s.closed = false

theorem write_open (d : Bytes) (s : Sys) (ho : Open s) (hw : s.cfg.writeFails s.writeCtr = false) :
    write d none s = .ok .ok { s with writeCtr := s.writeCtr + 1, trace := .wr d :: s.trace } := by
  obtain ⟨h1, h2, h3⟩ := ho
  unfold write
  simp [h1, h2, h3, hw]

theorem writez_open (op : Nat) (plain : Bytes) (s : Sys) (ho : Open s) (hw : s.cfg.writeFails s.writeCtr = false) :
    write [] (some (op, plain)) s = .ok .ok { s with writeCtr := s.writeCtr + 1, trace := .wrz op plain :: s.trace } := by
  obtain ⟨h1, h2, h3⟩ := ho
  unfold write
  simp [h1, h2, h3, hw]

theorem sendFrame_open (op : Nat) (pl frame : Bytes) (s : Sys) (ho : Open s)
    (hw : s.cfg.writeFails s.writeCtr = false)
    (hb : Frame.build op pl (s.cfg.maskKey s.keyCtr) = some frame) :
    sendFrame op pl none s =
      .ok .ok { s with keyCtr := s.keyCtr + 1, writeCtr := s.writeCtr + 1, trace := .wr frame :: s.trace } := by
  unfold sendFrame
  simp only [hb]
  exact write_open frame { s with keyCtr := s.keyCtr + 1 } ho hw

/-- **`close()` on an open websocket writes exactly one Close frame and starts closing** -/
theorem wsClose_open (code : Option Nat) (reason : Arg) (rb : Bytes) (s : Sys)
    (hr : reasonBytes reason = some rb) (ha : CloseArgsOk code rb) (ho : Open s)
    (hw : s.cfg.writeFails s.writeCtr = false) :
    wsClose code reason s =
      .ok .ok { s with keyCtr := s.keyCtr + 1, writeCtr := s.writeCtr + 1,
                       trace := .wr (closeFrame (buildClosePayload code rb) (s.cfg.maskKey s.keyCtr)) :: s.trace,
                       closing := true, sentCloseTime := some (sessionTime s) } := by
  obtain ⟨h1, h2, h3⟩ := ho
  obtain ⟨hc, hl⟩ := ha
  have hsend := sendFrame_open Gen.opClose (buildClosePayload code rb) _ s ⟨h1, h2, h3⟩ hw (build_close _ _ hl)
  have hlen : ¬ (buildClosePayload code rb).length > 125 := by omega
  have htb : ∀ c, code = some c → ¬ (65536 ≤ c) := fun c h => by have := hc c h; omega
  unfold wsClose
  cases reason with
  | other => cases hr
  | bytes b =>
    cases hr
    cases code with
    | none => simp only [h2, h3, hlen, hsend]; simp [sessionTime]
    | some c => simp only [h2, h3, hlen, hsend]; simp [sessionTime, htb c rfl]
  | str cps =>
    cases hr
    cases code with
    | none => simp only [h2, h3, hlen, hsend]; simp [sessionTime]
    | some c => simp only [h2, h3, hlen, hsend]; simp [sessionTime, htb c rfl]

/-- **calling `close()` again (closing or closed) does nothing** -/
theorem wsClose_again (code : Option Nat) (reason : Arg) (s : Sys) (h : Shut s) :
    wsClose code reason s = .ok .ok s := by
  unfold wsClose
  rcases h with h | h
  · cases hc : s.closed <;> simp [h, hc]
  · simp [h]

/-- what `session.write` answers once the websocket is closing or closed -/
def refusal (s : Sys) : ActRes :=
  if s.sockOpen = false then .wsUnavailable else if s.closed then .wsClosed else .wsClosing

theorem refusal_wsError (s : Sys) : wsError (refusal s) = true := by
  unfold refusal wsError; splits <;> simp

theorem refusal_closing (s : Sys) (h1 : s.sockOpen = true) (h2 : s.closed = false) : refusal s = .wsClosing := by
  simp [refusal, h1, h2]

theorem refusal_closed (s : Sys) (h1 : s.sockOpen = true) (h2 : s.closed = true) : refusal s = .wsClosed := by
  simp [refusal, h1, h2]

/-- **every write is refused, and nothing reaches the socket, once closing or closed** -/
theorem write_refused (d : Bytes) (z : Option (Nat × Bytes)) (s : Sys) (h : Shut s) :
    write d z s = .ok (refusal s) s := by
  unfold write refusal
  cases h1 : s.sockOpen <;> cases h2 : s.closed <;> cases h3 : s.closing <;> simp_all [Shut]

theorem sendFrame_refused (op : Nat) (pl : Bytes) (c : Option Bytes) (s : Sys) (h : Shut s) :
    ∃ r, sendFrame op pl c s = .ok r { s with keyCtr := s.keyCtr + 1 } ∧ r ≠ .ok ∧
      (pl.length < 2 ^ 63 → r = refusal s) := by
  unfold sendFrame
  simp only []
  cases c with
  | some plain =>
    refine ⟨refusal s, write_refused _ _ _ h, ?_, fun _ => rfl⟩
    have := refusal_wsError s; intro e; rw [e] at this; simp [wsError] at this
  | none =>
    cases hb : Frame.build op pl (s.cfg.maskKey s.keyCtr) with
    | some bytes =>
      refine ⟨refusal s, write_refused _ _ _ h, ?_, fun _ => rfl⟩
      have := refusal_wsError s; intro e; rw [e] at this; simp [wsError] at this
    | none =>
      refine ⟨.valueError, rfl, by simp, ?_⟩
      intro hl
      exfalso
      unfold Frame.build buildHeader at hb
      split at hb
      · cases hb
      · split at hb
        · cases hb
        · cases hb

theorem sendData_refused (op : Nat) (pl : Bytes) (c : Bool) (s : Sys) (h : Shut s) :
    ∃ r, sendData op pl c s = .ok r { s with keyCtr := s.keyCtr + 1 } ∧ r ≠ .ok ∧
      (pl.length < 2 ^ 63 → r = refusal s) := by
  unfold sendData
  split
  · obtain ⟨r, e, h1, h2⟩ := sendFrame_refused op [] (some pl) s h
    exact ⟨r, e, h1, fun _ => h2 (by simp)⟩
  · exact sendFrame_refused op pl none s h

theorem logRes_ok {m : M ActRes} {s s1 : Sys} {r : ActRes} (h : m s = .ok r s1) :
    logRes m s = .ok () { s1 with trace := .res r :: s1.trace } := by
  unfold logRes; rw [bind_ok h]; rfl

/-- the four send calls of the API -/
def Act.isSend : Act → Bool
  | .sendText _ _ => true
  | .sendBinary _ _ => true
  | .sendPing _ => true
  | .sendPong _ => true
  | _ => false

/-- a send call whose arguments the API accepts (right type, encodable, a frame can be built) -/
def Act.sendOk : Act → Bool
  | .sendText (.str cps) _ => !hasSurrogate cps && decide ((Utf8.encode cps).length < 2 ^ 63)
  | .sendBinary (.bytes b) _ => decide (b.length < 2 ^ 63)
  | .sendPing (.bytes b) => decide (b.length ≤ 125)
  | .sendPong (.bytes b) => decide (b.length ≤ 125)
  | _ => false

/-- **every send call made once the websocket is closing or closed fails and puts nothing on the
    wire**: the call's result `r` (logged as `.res r`) is never `ok`, the only change of state is
    the consumed masking key, and for acceptable arguments the result is the WebSocketError
    `refusal s` (`WebSocketClosing`, `WebSocketClosed`, or `WebSocketUnavailable` without socket) -/
theorem doAct_send_refused (a : Act) (hs : a.isSend = true) (s : Sys) (h : Shut s) :
    ∃ r k, doAct a s = .ok () { s with keyCtr := k, trace := .res r :: s.trace } ∧ r ≠ .ok ∧
      (a.sendOk = true → r = refusal s) := by
  have tyErr : ∃ r k, (logRes (pure .typeError) : M Unit) s = .ok () { s with keyCtr := k, trace := .res r :: s.trace } ∧
      r ≠ .ok ∧ (false = true → r = refusal s) :=
    ⟨.typeError, s.keyCtr, rfl, by simp, fun h => by cases h⟩
  cases a with
  | sendText arg c =>
    cases arg with
    | str cps =>
      unfold doAct
      by_cases hsur : hasSurrogate cps = true
      · simp only [hsur, if_true]
        exact ⟨.valueError, s.keyCtr, rfl, by simp, fun h => by simp [Act.sendOk, hsur] at h⟩
      · simp only [hsur, if_false]
        obtain ⟨r, e, h1, h2⟩ := sendData_refused Gen.opText (Utf8.encode cps) c s h
        refine ⟨r, s.keyCtr + 1, logRes_ok e, h1, fun h => h2 ?_⟩
        simp [Act.sendOk] at h; exact h.2
    | bytes b => exact tyErr
    | other => exact tyErr
  | sendBinary arg c =>
    cases arg with
    | bytes b =>
      unfold doAct
      obtain ⟨r, e, h1, h2⟩ := sendData_refused Gen.opBinary b c s h
      refine ⟨r, s.keyCtr + 1, logRes_ok e, h1, fun h => h2 ?_⟩
      simpa [Act.sendOk] using h
    | str cps => exact tyErr
    | other => exact tyErr
  | sendPing arg =>
    cases arg with
    | bytes b =>
      unfold doAct
      by_cases hl : b.length > 125
      · simp only [hl, if_true]
        exact ⟨.valueError, s.keyCtr, rfl, by simp, fun h => by simp [Act.sendOk] at h; omega⟩
      · simp only [hl, if_false]
        obtain ⟨r, e, h1, h2⟩ := sendFrame_refused Gen.opPing b none s h
        exact ⟨r, s.keyCtr + 1, logRes_ok e, h1, fun _ => h2 (by omega)⟩
    | str cps => exact tyErr
    | other => exact tyErr
  | sendPong arg =>
    cases arg with
    | bytes b =>
      unfold doAct
      by_cases hl : b.length > 125
      · simp only [hl, if_true]
        exact ⟨.valueError, s.keyCtr, rfl, by simp, fun h => by simp [Act.sendOk] at h; omega⟩
      · simp only [hl, if_false]
        obtain ⟨r, e, h1, h2⟩ := sendFrame_refused Gen.opPong b none s h
        exact ⟨r, s.keyCtr + 1, logRes_ok e, h1, fun _ => h2 (by omega)⟩
    | str cps => exact tyErr
    | other => exact tyErr
  | close _ _ => cases hs
  | sessionClose => cases hs
  | abandon _ => cases hs

/-- the frame a send call puts on the wire from state `s` (`none`: the call is rejected) -/
def Act.sent (a : Act) (s : Sys) : Option Obs :=
  let key := s.cfg.maskKey s.keyCtr
  let data (op : Nat) (pl : Bytes) (c : Bool) : Option Obs :=
    if c ∧ s.compression.isSome then some (.wrz op pl) else (Frame.build op pl key).map .wr
  match a with
  | .sendText (.str cps) c => if hasSurrogate cps then none else data Gen.opText (Utf8.encode cps) c
  | .sendBinary (.bytes b) c => data Gen.opBinary b c
  | .sendPing (.bytes b) => if b.length > 125 then none else (Frame.build Gen.opPing b key).map .wr
  | .sendPong (.bytes b) => if b.length > 125 then none else (Frame.build Gen.opPong b key).map .wr
  | _ => none

theorem sendData_open (op : Nat) (pl : Bytes) (c : Bool) (s : Sys) (o : Obs) (ho : Open s)
    (hw : s.cfg.writeFails s.writeCtr = false)
    (hb : (if c ∧ s.compression.isSome then some (Obs.wrz op pl)
           else (Frame.build op pl (s.cfg.maskKey s.keyCtr)).map Obs.wr) = some o) :
    sendData op pl c s =
      .ok .ok { s with keyCtr := s.keyCtr + 1, writeCtr := s.writeCtr + 1, trace := o :: s.trace } := by
  unfold sendData
  split at hb
  · rename_i hc
    cases hb
    simp only [hc, if_true]
    unfold sendFrame
    exact writez_open op pl { s with keyCtr := s.keyCtr + 1 } ho hw
  · rename_i hc
    simp only [hc, if_false]
    cases hf : Frame.build op pl (s.cfg.maskKey s.keyCtr) with
    | none => rw [hf] at hb; cases hb
    | some frame =>
      rw [hf] at hb; cases hb
      exact sendFrame_open op pl frame s ho hw hf

/-- **while the websocket is open (in particular during the `Closing` event) a send call is
    written**: one frame, result `ok`, and the websocket stays open -/
theorem doAct_send_open (a : Act) (s : Sys) (o : Obs) (ho : Open s)
    (hw : s.cfg.writeFails s.writeCtr = false) (hsent : a.sent s = some o) :
    doAct a s = .ok () { s with keyCtr := s.keyCtr + 1, writeCtr := s.writeCtr + 1,
                                 trace := .res .ok :: o :: s.trace } := by
  cases a with
  | sendText arg c =>
    cases arg with
    | str cps =>
      unfold doAct
      simp only [Act.sent] at hsent
      by_cases hsur : hasSurrogate cps = true
      · simp [hsur] at hsent
      · simp only [hsur, if_false] at hsent ⊢
        exact logRes_ok (sendData_open _ _ _ s o ho hw hsent)
    | bytes b => simp [Act.sent] at hsent
    | other => simp [Act.sent] at hsent
  | sendBinary arg c =>
    cases arg with
    | bytes b =>
      unfold doAct
      simp only [Act.sent] at hsent
      exact logRes_ok (sendData_open _ _ _ s o ho hw hsent)
    | str cps => simp [Act.sent] at hsent
    | other => simp [Act.sent] at hsent
  | sendPing arg =>
    cases arg with
    | bytes b =>
      unfold doAct
      simp only [Act.sent] at hsent
      by_cases hl : b.length > 125
      · simp [hl] at hsent
      · simp only [hl, if_false] at hsent ⊢
        cases hf : Frame.build Gen.opPing b (s.cfg.maskKey s.keyCtr) with
        | none => rw [hf] at hsent; cases hsent
        | some frame => rw [hf] at hsent; cases hsent; exact logRes_ok (sendFrame_open _ _ frame s ho hw hf)
    | str cps => simp [Act.sent] at hsent
    | other => simp [Act.sent] at hsent
  | sendPong arg =>
    cases arg with
    | bytes b =>
      unfold doAct
      simp only [Act.sent] at hsent
      by_cases hl : b.length > 125
      · simp [hl] at hsent
      · simp only [hl, if_false] at hsent ⊢
        cases hf : Frame.build Gen.opPong b (s.cfg.maskKey s.keyCtr) with
        | none => rw [hf] at hsent; cases hsent
        | some frame => rw [hf] at hsent; cases hsent; exact logRes_ok (sendFrame_open _ _ frame s ho hw hf)
    | str cps => simp [Act.sent] at hsent
    | other => simp [Act.sent] at hsent
  | close _ _ => simp [Act.sent] at hsent
  | sessionClose => simp [Act.sent] at hsent
  | abandon _ => simp [Act.sent] at hsent

/-! ### events -/

theorem yieldEv_eq (e : Event) (s : Sys) :
    yieldEv e s = doActs (s.react (e :: s.hist)) { s with trace := .ev e :: s.trace, hist := e :: s.hist } := rfl

/-- what `run()`/`feed` do when the application's handling of an event raises -/
def afterYield (inTry : Bool) (x : Exn) : M Unit := do
  (if inTry then onDisconnect else pure ())
  throwE (.outer x)

/-- the application's reaction to the newest event, followed by `_regular()` -/
def reactThenRegular : M Unit := do
  let s ← getS
  doActs (s.react s.hist)
  regular

/-- handing an event to the application from state `s1` (after `_on_event`) -/
def handed (e : Event) (s1 : Sys) : Sys := { s1 with trace := .ev e :: s1.trace, hist := e :: s1.hist }

theorem feedYield_eq (inTry : Bool) (e : Event) (s s1 : Sys) (h : onEvent e s = .ok () s1) :
    feedYield inTry e s = tryC reactThenRegular (afterYield inTry) (handed e s1) := by
  unfold feedYield tryC
  have : (do onEvent e; yieldEv e; regular : M Unit) s = reactThenRegular (handed e s1) := by
    rw [bind_ok h]; rfl
  rw [this]; rfl

theorem feedYield_err (e : Event) (s s' : Sys) (x : Exn) (h : feedYield true e s = .err x s') :
    s'.closed = true ∧ s'.closing = false := by
  unfold feedYield tryC at h
  cases hb : (do onEvent e; yieldEv e; regular : M Unit) s with
  | ok a s1 => rw [hb] at h; cases h
  | err y s1 =>
    rw [hb] at h
    simp only [if_true] at h
    obtain ⟨s2, e2⟩ := closeSocket_ok s1
    have hd : onDisconnect s1 = .ok () { s2 with closing := false, closed := true } := by
      unfold onDisconnect; rw [bind_ok e2]; rfl
    rw [bind_ok hd] at h
    cases h
    exact ⟨rfl, rfl⟩

/-- `sendFrame` only touches the two counters and the trace -/
theorem sendFrame_shape (op : Nat) (pl : Bytes) (c : Option Bytes) (s : Sys) :
    ∃ r wc tr, sendFrame op pl c s = .ok r { s with keyCtr := s.keyCtr + 1, writeCtr := wc, trace := tr } := by
  unfold sendFrame write
  simp only []
  splits
  all_goals first
    | exact ⟨_, s.writeCtr, s.trace, rfl⟩
    | exact ⟨_, _, _, rfl⟩

/-- the event a data/ping/pong message is delivered as -/
def msgEvent : Msg → Option Event
  | .text t => some (.text t)
  | .binary d => some (.binary d)
  | .ping d => some (.ping d)
  | .pong d => some (.pong d)
  | _ => none

/-- `_on_event` for a delivered message: at most the automatic Pong is attempted, and not even that
    once the websocket is closing -/
theorem onEvent_msg (m : Msg) (e : Event) (hm : msgEvent m = some e) (s : Sys)
    (hp : ∀ d, m = .ping d → s.cfg.autoPong = true → d.length ≤ 125) :
    ∃ s1, onEvent e s = .ok () s1 ∧ s1.hist = s.hist ∧ s1.react = s.react ∧
      s1.closing = s.closing ∧ s1.closed = s.closed ∧ s1.sockOpen = s.sockOpen ∧
      (∃ l, s1.trace = l ++ s.trace ∧ l.length ≤ 1) ∧ (Shut s → s1.trace = s.trace) := by
  have same : ∃ s1, (Res.ok () s : Res Unit) = .ok () s1 ∧ s1.hist = s.hist ∧ s1.react = s.react ∧
      s1.closing = s.closing ∧ s1.closed = s.closed ∧ s1.sockOpen = s.sockOpen ∧
      (∃ l, s1.trace = l ++ s.trace ∧ l.length ≤ 1) ∧ (Shut s → s1.trace = s.trace) :=
    ⟨s, rfl, rfl, rfl, rfl, rfl, rfl, ⟨[], rfl, by simp⟩, fun _ => rfl⟩
  cases m with
  | text t => cases hm; exact same
  | binary d => cases hm; exact same
  | pong d =>
    cases hm
    exact ⟨{ s with lastPong := sessionTime s }, rfl, rfl, rfl, rfl, rfl, rfl, ⟨[], rfl, by simp⟩, fun _ => rfl⟩
  | ping d =>
    cases hm
    unfold onEvent
    simp only []
    by_cases hap : s.cfg.autoPong = true
    · have hl : ¬ d.length > 125 := by have := hp d rfl hap; omega
      simp only [hap, if_true, hl, if_false]
      obtain ⟨r, wc, tr, e⟩ := sendFrame_shape Gen.opPong d none s
      have hw := weff_sendFrame_ok (by decide) e
      rw [e]
      refine ⟨_, rfl, rfl, rfl, rfl, rfl, rfl, ?_, ?_⟩
      · rcases hw.tr with h | ⟨_, _, o, h, _⟩
        · exact ⟨[], by simpa using h, by simp⟩
        · exact ⟨[o], by simpa using h, by simp⟩
      · intro hs
        rcases hw.tr with h | ⟨h1, h2, _⟩
        · simpa using h
        · rcases hs with h | h
          · rw [h1] at h; cases h
          · rw [h2] at h; cases h
    · simp only [hap]
      exact same
  | close _ _ => cases hm
  | unknown => cases hm

/-- **incoming messages are delivered whatever the closing state is**: `onMessage` hands the
    event to the application (trace and history extended, reaction run, then `_regular()`), for
    every state `s`; `closing`/`closed` are neither read nor changed on the way -/
theorem onMessage_delivers (m : Msg) (e : Event) (hm : msgEvent m = some e) (s : Sys)
    (hp : ∀ d, m = .ping d → s.cfg.autoPong = true → d.length ≤ 125) :
    ∃ s1, onEvent e s = .ok () s1 ∧ s1.hist = s.hist ∧ s1.react = s.react ∧
      s1.closing = s.closing ∧ s1.closed = s.closed ∧ s1.sockOpen = s.sockOpen ∧
      (∃ l, s1.trace = l ++ s.trace ∧ l.length ≤ 1) ∧ (Shut s → s1.trace = s.trace) ∧
      onMessage m s = tryC reactThenRegular (afterYield true) (handed e s1) := by
  obtain ⟨s1, h1, h2, h3, h4, h5, h6, h7, h8⟩ := onEvent_msg m e hm s hp
  refine ⟨s1, h1, h2, h3, h4, h5, h6, h7, h8, ?_⟩
  cases m with
  | text t => cases hm; exact feedYield_eq true _ s s1 h1
  | binary d => cases hm; exact feedYield_eq true _ s s1 h1
  | pong d => cases hm; exact feedYield_eq true _ s s1 h1
  | ping d => cases hm; exact feedYield_eq true _ s s1 h1
  | close _ _ => cases hm
  | unknown => cases hm

/-! ### `_on_close` -/

/-- a close code the client accepts (`code not in Status.invalid_codes`) -/
def ValidCode (code : Option Nat) : Prop := ∀ c, code = some c → isInvalidCode c = false

theorem checkCloseCode_ok (code : Option Nat) (h : ValidCode code) (s : Sys) :
    checkCloseCode code s = .ok () s := by
  unfold checkCloseCode
  cases code with
  | none => rfl
  | some c => simp [h c rfl]; rfl

/-- server closes first: the `Closing` event, then the echo -/
theorem onClose_open_eq (code : Option Nat) (reason : List Nat) (s : Sys) (hv : ValidCode code)
    (hcg : s.closing = false) (hcd : s.closed = false) :
    onClose code reason s =
      (do feedYield true (.closing code reason)
          let r ← wsClose code (.str reason)
          raiseIfArgError r
          modS fun s => { s with closing := true } : M Unit) s := by
  unfold onClose
  rw [bind_ok (checkCloseCode_ok code hv s), bind_ok (show getS s = .ok s s from rfl)]
  simp [hcg, hcd]

/-- client closed first: the `Closed` event, then `closed := true` -/
theorem onClose_closing_eq (code : Option Nat) (reason : List Nat) (s : Sys) (hv : ValidCode code)
    (hcg : s.closing = true) (hcd : s.closed = false) :
    onClose code reason s =
      (do feedYield true (.closed code reason)
          modS fun s => { s with closing := false, closed := true } : M Unit) s := by
  unfold onClose
  rw [bind_ok (checkCloseCode_ok code hv s), bind_ok (show getS s = .ok s s from rfl)]
  simp [hcg, hcd]

theorem hasSurrogate_false_iff (cps : List Nat) :
    hasSurrogate cps = false ↔ ∀ c ∈ cps, ¬ (0xD800 ≤ c ∧ c ≤ 0xDFFF) := by
  unfold hasSurrogate
  simp [List.any_eq_false]

theorem encodeReplace_eq (cps : List Nat) (h : hasSurrogate cps = false) : encodeReplace cps = Utf8.encode cps := by
  unfold encodeReplace
  congr 1
  have := (hasSurrogate_false_iff cps).mp h
  conv => rhs; rw [← List.map_id cps]
  apply List.map_congr_left
  intro c hc
  have := this c hc
  simp only [id]
  split
  · rename_i h'; exact absurd h' this
  · rfl

/-- the `Closing` event is handed to the application while the websocket is still open:
    whatever it sends in that reaction is accepted (`doAct_send_open`) -/
theorem closing_event_open (code : Option Nat) (reason : List Nat) (s : Sys) (ho : Open s) :
    feedYield true (.closing code reason) s
        = tryC reactThenRegular (afterYield true) (handed (.closing code reason) s) ∧
    Open (handed (.closing code reason) s) :=
  ⟨feedYield_eq true _ s s rfl, ho⟩

/-- **the echo**: after the `Closing` event has been handled (and the application has not itself
    closed), exactly one Close frame with the received code and reason is written and the
    websocket is closing -/
theorem onClose_echo (code : Option Nat) (reason : List Nat) (s s1 : Sys) (hv : ValidCode code)
    (hcg : s.closing = false) (hcd : s.closed = false)
    (hy : feedYield true (.closing code reason) s = .ok () s1)
    (ho : Open s1) (hw : s1.cfg.writeFails s1.writeCtr = false)
    (ha : CloseArgsOk code (encodeReplace reason)) :
    onClose code reason s =
      .ok () { s1 with keyCtr := s1.keyCtr + 1, writeCtr := s1.writeCtr + 1,
                       trace := .wr (closeFrame (buildClosePayload code (encodeReplace reason))
                                      (s1.cfg.maskKey s1.keyCtr)) :: s1.trace,
                       closing := true, sentCloseTime := some (sessionTime s1) } := by
  rw [onClose_open_eq code reason s hv hcg hcd, bind_ok hy,
      bind_ok (wsClose_open code (.str reason) _ s1 rfl ha ho hw)]
  rfl

/-- if the application itself called `close()` while handling `Closing` (or the websocket got
    closed), no second Close frame is written -/
theorem onClose_echo_skipped (code : Option Nat) (reason : List Nat) (s s1 : Sys) (hv : ValidCode code)
    (hcg : s.closing = false) (hcd : s.closed = false)
    (hy : feedYield true (.closing code reason) s = .ok () s1) (hs : Shut s1) :
    onClose code reason s = .ok () { s1 with closing := true } := by
  rw [onClose_open_eq code reason s hv hcg hcd, bind_ok hy, bind_ok (wsClose_again code (.str reason) s1 hs)]
  rfl

theorem beBytes2_beVal (a b : Nat) (ha : a < 256) (hb : b < 256) : beBytes 2 (beVal [a, b]) = [a, b] := by
  simp only [beVal, List.foldl, beBytes, List.nil_append, List.cons_append]
  congr 1
  · omega
  · congr 1; omega

/-- **what is echoed is what was received**: the code and reason `Close.from_payload` extracts
    from a received Close payload rebuild exactly that payload, and they are acceptable
    arguments for `close()` when the payload respects the control-frame limit -/
theorem closeFromPayload_echo (payload : Bytes) (hwf : Bytes.WF payload) (code : Option Nat) (reason : List Nat)
    (h : closeFromPayload payload = .ok (.close code reason)) :
    buildClosePayload code (encodeReplace reason) = payload ∧ hasSurrogate reason = false ∧
      (∀ c, code = some c → c < 65536) := by
  unfold closeFromPayload at h
  split at h
  · cases h
  · split at h
    · rename_i h1 h2
      simp only [] at h
      split at h
      · cases h
      · split at h
        · cases h
        · rename_i cps hdec
          cases h
          obtain ⟨henc, hsc⟩ := Utf8.encode_decode _ _ hdec
          have hns : hasSurrogate reason = false := by
            rw [hasSurrogate_false_iff]
            intro c hc
            have := hsc c hc
            simp only [Utf8.isScalar, Bool.or_eq_true, Bool.and_eq_true, decide_eq_true_eq] at this
            omega
          match payload, h2, hwf, henc with
          | a :: b :: rest, _, hwf, henc =>
            have ha : a < 256 := hwf a (by simp)
            have hb : b < 256 := hwf b (by simp)
            refine ⟨?_, hns, ?_⟩
            · rw [encodeReplace_eq _ hns, henc]
              simp only [buildClosePayload, List.take, List.drop]
              rw [beBytes2_beVal a b ha hb]; rfl
            · intro c hc
              cases hc
              simp only [List.take, beVal, List.foldl]
              omega
    · rename_i h1 h2
      cases h
      have : payload = [] := by
        cases payload with
        | nil => rfl
        | cons a r => simp only [List.length_cons] at h1 h2; omega
      subst this
      exact ⟨rfl, rfl, fun c hc => by cases hc⟩

/-! ### the end of the connection -/

theorem onEof_shut (s : Sys) (h : Shut s) : onEof s = .ok false s := by
  unfold onEof
  rcases h with h | h <;> simp [h]

/-- **EOF (or a dead socket) during the closing handshake is not an error** -/
theorem recvStep_eof_shut (s : Sys) (h : Shut s) : recvStep .eof s = .ok false s := by
  unfold recvStep
  split
  · exact onEof_shut s h
  · exact onEof_shut s h

theorem loop_closed (env : List EnvStep) (s : Sys) (h : s.closed = true) : loop env s = .ok () s := by
  cases env <;> (unfold loop; simp [h])

/-- one cycle of the loop that receives EOF while closing ends the loop normally -/
theorem loop_eof_shut (dt : Nat) (rest : List EnvStep) (s s2 : Sys) (hcd : s.closed = false)
    (hreg : regularTop (tick s dt) = .ok () s2) (hs : Shut s2) :
    loop (.wait dt (some .eof) :: rest) s = .ok () s2 := by
  unfold loop
  simp only [hcd, hreg, recvStep_eof_shut s2 hs]
  simp

/-- one cycle of the loop after which the websocket is closed ends the loop normally -/
theorem loop_step_closed (dt : Nat) (o : RecvOutcome) (rest : List EnvStep) (s s2 s3 : Sys) (b : Bool)
    (hcd : s.closed = false) (hreg : regularTop (tick s dt) = .ok () s2)
    (hrecv : recvStep o s2 = .ok b s3) (h3 : s3.closed = true) :
    loop (.wait dt (some o) :: rest) s = .ok () s3 := by
  unfold loop
  simp only [hcd, hreg, hrecv]
  cases b
  · simp
  · simp [loop_closed rest s3 h3]

theorem runBody_of_loop_ok (env : List EnvStep) (s s1 : Sys) (h : loop env s = .ok () s1) :
    runBody env s = onLoopEnd none s1 := by
  unfold runBody
  have hb : (do loop env; pure none : M (Option Exn)) s = .ok none s1 := by rw [bind_ok h]; rfl
  rw [bind_ok (tryC_ok hb)]

/-- `_close_socket()` as a state transformer -/
def sockClosed (s : Sys) : Sys :=
  if s.sockOpen then { s with sockOpen := false, trace := .sockClose :: s.trace } else s

theorem closeSocket_eq (s : Sys) : closeSocket s = .ok () (sockClosed s) := by
  unfold closeSocket sockClosed; split <;> rfl

theorem sockClosed_sockOpen (s : Sys) : (sockClosed s).sockOpen = false := by
  unfold sockClosed; split <;> simp_all

/-- **the graceful end**: the socket is closed, then `Disconnected('closed', graceful=True)` is
    handed to the application -/
theorem onLoopEnd_none_eq (s : Sys) :
    onLoopEnd none s =
      doActs (s.react (.disconnected "closed" true :: s.hist))
        (handed (.disconnected "closed" true) (sockClosed s)) := by
  show (closeSocket >>= fun _ => yieldEv (.disconnected "closed" true)) s = _
  rw [bind_ok (closeSocket_eq s), yieldEv_eq]
  unfold sockClosed handed
  split <;> rfl

theorem onLoopEnd_none_state (s : Sys) :
    (onLoopEnd none s).state.sockOpen = false ∧
    ∃ l, (onLoopEnd none s).state.trace = l ++ .ev (.disconnected "closed" true) :: (sockClosed s).trace := by
  rw [onLoopEnd_none_eq]
  have st := step_doActs (s.react (.disconnected "closed" true :: s.hist))
    (handed (.disconnected "closed" true) (sockClosed s))
  exact ⟨st.sockMono (sockClosed_sockOpen s), st.traceExt⟩

/-- `close()` before the upgrade request is written (at `Connecting`): the request is refused,
    the connection attempt ends with `ConnectFail('request-failed')`, nothing is written -/
theorem afterConnect_shut (proxy : Bool) (s : Sys) (h : Shut s) :
    afterConnect proxy s =
      (do closeSocket; yieldEv (.connectFail "request-failed") : M Unit) { s with sockOpen := true } := by
  unfold afterConnect
  rw [bind_ok (show modS (fun s => { s with sockOpen := true }) s = .ok () { s with sockOpen := true } from rfl)]
  rw [bind_ok (show getS { s with sockOpen := true } = .ok _ _ from rfl)]
  rw [bind_ok (write_refused s.cfg.request none { s with sockOpen := true } h)]
  simp only [refusal_wsError, if_true]

/-! ### a received Close frame reaches `_on_close` -/

theorem buildMessage_close (f : Frame) (hop : f.opcode = 8) (code : Option Nat) (reason : List Nat)
    (hp : closeFromPayload f.payload = .ok (.close code reason)) (s : Sys)
    (hz : f.rsv1 = 0 ∨ s.decompress = false) :
    buildMessage [f] s = .ok (.close code reason) s := by
  unfold buildMessage
  simp only [List.map_cons, List.map_nil, List.flatten_cons, List.flatten_nil, List.append_nil]
  rw [bind_ok (show getS s = .ok s s from rfl)]
  have hc : ¬ (f.rsv1 ≠ 0 ∧ s.decompress = true) := by
    rcases hz with h | h
    · simp [h]
    · simp [h]
  simp only [hc, if_false]
  rw [bind_ok (show (pure f.payload : M Bytes) s = .ok f.payload s from rfl)]
  unfold msgOfPayload liftE
  simp [hop, Gen.opBinary, Gen.opText, Gen.opClose, hp]

theorem onOut_close_frame (f : Frame) (hop : f.opcode = 8) (code : Option Nat) (reason : List Nat)
    (hp : closeFromPayload f.payload = .ok (.close code reason)) (s : Sys)
    (hz : f.rsv1 = 0 ∨ s.decompress = false) :
    onOut (.frame f) s = (do onClose code reason; notClosed : M Bool) s := by
  unfold onOut onFrame
  have hctl : f.isControl = true := by simp [Frame.isControl, hop]
  simp only [hctl, if_true]
  show ((buildMessage [f] >>= fun m => onMessage m) >>= fun _ => notClosed) s = _
  have : (buildMessage [f] >>= fun m => onMessage m) s = onClose code reason s := by
    rw [bind_ok (buildMessage_close f hop code reason hp s hz)]; rfl
  show M.bind _ _ s = M.bind _ _ s
  unfold M.bind
  rw [this]

/-- **client closed first, then the server's Close arrives**: whatever happens while the `Closed`
    event is handled, the websocket ends up closed, and `WebSocket.feed` stops iterating -/
theorem onClose_when_closing (code : Option Nat) (reason : List Nat) (s : Sys) (hv : ValidCode code)
    (hcg : s.closing = true) (hcd : s.closed = false) :
    feedYield true (.closed code reason) s
        = tryC reactThenRegular (afterYield true) (handed (.closed code reason) s) ∧
    (∀ s1, feedYield true (.closed code reason) s = .ok () s1 →
        onClose code reason s = .ok () { s1 with closing := false, closed := true }) ∧
    (onClose code reason s).state.closed = true ∧ (onClose code reason s).state.closing = false := by
  refine ⟨feedYield_eq true _ s s rfl, ?_, ?_⟩
  · intro s1 hy
    rw [onClose_closing_eq code reason s hv hcg hcd, bind_ok hy]; rfl
  · rw [onClose_closing_eq code reason s hv hcg hcd]
    cases hy : feedYield true (.closed code reason) s with
    | ok a s1 => rw [bind_ok hy]; exact ⟨rfl, rfl⟩
    | err x s1 => rw [bind_err hy]; exact feedYield_err _ _ _ _ hy

theorem onOut_close_when_closing (f : Frame) (hop : f.opcode = 8) (code : Option Nat) (reason : List Nat)
    (hp : closeFromPayload f.payload = .ok (.close code reason)) (s : Sys)
    (hz : f.rsv1 = 0 ∨ s.decompress = false) (hv : ValidCode code)
    (hcg : s.closing = true) (hcd : s.closed = false) :
    (onOut (.frame f) s).state.closed = true ∧ ∀ b s', onOut (.frame f) s = .ok b s' → b = false := by
  rw [onOut_close_frame f hop code reason hp s hz]
  obtain ⟨_, _, h3, _⟩ := onClose_when_closing code reason s hv hcg hcd
  cases hc : onClose code reason s with
  | ok a s1 =>
    rw [hc] at h3
    rw [bind_ok hc]
    simp only [Res.state_ok] at h3
    unfold notClosed
    simp [h3]
  | err x s1 =>
    rw [hc] at h3
    rw [bind_err hc]
    exact ⟨h3, fun b s' h => by cases h⟩

/-- `close()` without a socket (before `Connected`): `WebSocketUnavailable` is swallowed, nothing is
    written, the websocket is closing -/
theorem wsClose_no_socket (code : Option Nat) (reason : Arg) (rb : Bytes) (s : Sys)
    (hr : reasonBytes reason = some rb) (ha : CloseArgsOk code rb)
    (hso : s.sockOpen = false) (hcg : s.closing = false) (hcd : s.closed = false) :
    ∃ s', wsClose code reason s = .ok .ok s' ∧ s'.trace = s.trace ∧ s'.closing = true := by
  obtain ⟨hc, hl⟩ := ha
  have hlen : ¬ (buildClosePayload code rb).length > 125 := by omega
  have hsend : sendFrame Gen.opClose (buildClosePayload code rb) none s
      = .ok .wsUnavailable { s with keyCtr := s.keyCtr + 1 } := by
    unfold sendFrame
    simp only [build_close _ _ hl]
    unfold write; simp [hso]
  have htb : ∀ c, code = some c → ¬ (65536 ≤ c) := fun c h => by have := hc c h; omega
  unfold wsClose
  cases reason with
  | other => cases hr
  | bytes b =>
    cases hr
    cases code with
    | none => simp only [hcg, hcd, hlen, hsend]; simp
    | some c => simp only [hcg, hcd, hlen, hsend]; simp [htb c rfl]
  | str cps =>
    cases hr
    cases code with
    | none => simp only [hcg, hcd, hlen, hsend]; simp
    | some c => simp only [hcg, hcd, hlen, hsend]; simp [htb c rfl]

/-- the upgrade request `WebSocket.build_request()` produces starts with `GET `, so it never looks
    like a Close frame: `ReqOk` holds for every request the library builds -/
theorem buildRequest_not_close (c : Http.ReqCfg) : isCloseBytes (Http.buildRequest c) = false := by
  have hget : Http.lit "GET " = [71, 69, 84, 32] := by decide +kernel
  have hj : ∀ (t : Bytes) (r : List Bytes), ∃ t', Http.joinCRLF ((71 :: t) :: r) = 71 :: t' := by
    intro t r
    cases r with
    | nil => exact ⟨_, rfl⟩
    | cons y r => exact ⟨_, rfl⟩
  unfold Http.buildRequest
  simp only [hget, List.cons_append, List.nil_append]
  obtain ⟨t', e⟩ := hj _ _
  rw [e]; rfl

/-! ## Part 4: concrete data for the non-vacuity examples of Properties/C08.lean -/

namespace Ex

/-- `HTTP/1.1 101 Switching Protocols` / `Upgrade: websocket` / `Connection: Upgrade` /
    `Sec-WebSocket-Accept: abc` -/
def resp : Bytes :=
  [72, 84, 84, 80, 47, 49, 46, 49, 32, 49, 48, 49, 32, 83, 119, 105, 116, 99, 104, 105, 110, 103, 32, 80, 114, 111, 116,
   111, 99, 111, 108, 115, 13, 10, 85, 112, 103, 114, 97, 100, 101, 58, 32, 119, 101, 98, 115, 111, 99, 107, 101, 116, 13,
   10, 67, 111, 110, 110, 101, 99, 116, 105, 111, 110, 58, 32, 85, 112, 103, 114, 97, 100, 101, 13, 10, 83, 101, 99, 45,
   87, 101, 98, 83, 111, 99, 107, 101, 116, 45, 65, 99, 99, 101, 112, 116, 58, 32, 97, 98, 99, 13, 10, 13, 10]

/-- request `GET`, expected accept value `abc`, no automatic pings -/
def cfg : Cfg := { challenge := [97, 98, 99], request := [71, 69, 84], pingRate := 0 }

/-- a connected websocket in the frames phase -/
def opened (react : React := fun _ => []) : Sys :=
  { cfg := cfg, react := react, env := [], sockOpen := true, p := { cont := .hdr2, remPred := 1 } }

/-- the same after `close()` -/
def closing (react : React := fun _ => []) : Sys := { opened react with closing := true }

/-- client closes at `Ready` (then tries to send, and later to send and close again) -/
def reactClient : React := fun hist =>
  match hist with
  | .ready _ _ :: _ => [.close (some 1000) (.bytes [98, 121, 101]), .sendBinary (.bytes [1]) false]
  | .text _ :: _ => [.sendText (.str [104]) false, .close (some 1001) (.bytes [])]
  | _ => []

/-- handshake reply, Text `hi`, the server's Close 1000 -/
def envClient : List EnvStep :=
  [.wait 0 (some (.data resp)), .wait 1 (some (.data [0x81, 2, 104, 105])), .wait 1 (some (.data [0x88, 2, 3, 232]))]

/-- sends during `Closing`, and once more at `Disconnected` -/
def reactServer : React := fun hist =>
  match hist with
  | .closing _ _ :: _ => [.sendBinary (.bytes [7]) false]
  | .disconnected _ _ :: _ => [.sendBinary (.bytes [9]) false]
  | _ => []

/-- handshake reply, the server's Close 1000 `ok`, EOF -/
def envServer : List EnvStep :=
  [.wait 0 (some (.data resp)), .wait 1 (some (.data [0x88, 4, 3, 232, 111, 107])), .wait 1 (some .eof)]

/-- handshake reply, the server's empty Close, EOF -/
def envServerEmpty : List EnvStep :=
  [.wait 0 (some (.data resp)), .wait 1 (some (.data [0x88, 0])), .wait 1 (some .eof)]

/-- answers a Text with a Text -/
def reactText : React := fun hist =>
  match hist with
  | .text _ :: _ => [.sendText (.str [111]) false]
  | _ => []

/-- closes at `Connecting` -/
def reactEarly : React := fun hist =>
  match hist with
  | [.connecting] => [.close (some 1000) (.bytes [])]
  | _ => []

/-- the server's Close 1000 without reason, as a parsed frame -/
def closeFrame1000 : Frame := { opcode := 8, payload := [3, 232] }

end Ex

end Lomond.Core
