/-
  C01 / C02 generalised, the session loop with the clock running.

  Environment scripts here are *timed*: every cycle of the loop waits `dt` ticks and then either
  has nothing to read or reads a non-empty chunk (`TStep`, `tscript`).  From a state satisfying
  the time-insensitive invariant `DG.TG`, the loop over such a script whose bytes are the wire form
  of conforming items (and, last, possibly the server's Close) delivers exactly the expected
  events — whatever the cuts and whatever the waits (`timed_frames`).  `tail_loop` handles the
  idle cycles and the end of stream after the last read.
-/
import Lomond.Proofs.DeliveryGen
import Lomond.Proofs.ClosingRun
set_option linter.unusedSimpArgs false
set_option linter.unusedVariables false
namespace Lomond.Core.DG
open Lomond Lomond.Core Lomond.Core.E2E

/-! ### frames through the consumer, one step each -/

theorem consume_eatSeq (z : ZP) (fs : List Frame) (es : List Event) (c c' : View) (h : EatSeq z fs es c c')
    (pouts : List (PState × Out)) (hm : pouts.map (·.2) = fs.map Out.frame)
    (fin : Sys → Res Bool) (more : List (PState × Out)) (s : Sys) (g : TG s) (hz : ZOk z s) (hv : view s = c) :
    ∃ s', consume fin (pouts ++ more) s = consume fin more s' ∧ RelT es s s' ∧ view s' = c' ∧
      TG s' ∧ ZOk z s' := by
  induction fs generalizing es c pouts s with
  | nil =>
    obtain ⟨rfl, rfl⟩ := h
    have : pouts = [] := by simpa using hm
    subst this
    exact ⟨s, rfl, RelT.refl s, hv, g, hz⟩
  | cons f r ih =>
    obtain ⟨e1, e2, c1, hf, hr, rfl⟩ := h
    obtain ⟨x, rest, rfl, hx, hrest⟩ := List.map_eq_cons_iff.mp hm
    obtain ⟨p1, o⟩ := x
    simp only at hx
    subst hx
    obtain ⟨s1, h1, r1, v1, _⟩ := hf { s with p := p1 } ⟨g.app, g.pt, g.ct, g.sock, g.closed⟩
      ⟨hz.infl, hz.comp, hz.dec⟩ hv
    have r1' : RelT e1 s s1 :=
      ⟨⟨r1.fix.cfg, r1.fix.react, r1.fix.sockOpen, r1.fix.selOpen, r1.fix.closed, r1.fix.closing,
        r1.fix.sentCloseTime, r1.fix.ready, r1.fix.startTime, r1.fix.now⟩, r1.comp, r1.dec, r1.evs⟩
    have g1 : TG s1 := g.of_fix r1'.fix
    obtain ⟨s2, h2, r2, v2, g2, z2⟩ := ih e2 c1 hr rest hrest s1 g1 (hz.of_rel r1') v1
    refine ⟨s2, ?_, r1'.trans r2, v2, g2, z2⟩
    show consume fin ((p1, Out.frame f) :: (rest ++ more)) s = _
    simp only [consume]
    rw [h1]
    exact h2

/-! ### the server's Close -/

/-- the state after the server's Close has been answered: `Closing` delivered, the echo written
    (or its write failed), the websocket closing, the close timer armed *now* -/
structure Closed1 (c : CloseF) (s s' : Sys) : Prop where
  cfg : s'.cfg = s.cfg
  react : s'.react = s.react
  closed : s'.closed = false
  closing : s'.closing = true
  sct : s'.sentCloseTime = some (sessionTime s')
  evs : delivered s'.trace = c.event :: delivered s.trace
  sock : s'.sockOpen = s.sockOpen
  sel : s'.selOpen = s.selOpen
  p : s'.p = s.p
  vw : view s' = view s

theorem onOut_close_T (c : CloseF) (hc : c.Ok) (s : Sys) (g : TG s) (hcg : s.closing = false) :
    ∃ s', onOut (.frame c.wire.frame) s = .ok true s' ∧ Closed1 c s s' := by
  have hv := CR.validCode_of_ok c hc
  have hpay : closeFromPayload c.wire.frame.payload = .ok (.close c.code c.reason) := closeFromPayload_ok c hc
  obtain ⟨s1, e1, c1, f1, q1⟩ := feedYield_T true (.closing c.code c.reason) trivial s g
  have g1 : TG s1 := g.of_fix f1
  obtain ⟨a, s2, e2, c2⟩ := tot_sendFrame Gen.opClose (buildClosePayload c.code (encodeReplace c.reason)) none s1 g1.good
  have f2 : Fix s1 s2 := (fix_sendFrame _ _ _).ok e2
  have q2 : Quiet s1 s2 := (quiet_sendFrame _ _).ok e2
  have hl : ¬ (buildClosePayload c.code (encodeReplace c.reason)).length > 125 := by
    rw [close_echo_payload c hc]; have := hc.2.1; omega
  have hbig := CR.codeFits_of_ok c hc
  have h1cl : s1.closed = false := by rw [f1.closed]; exact g.closed
  have h1cg : s1.closing = false := by rw [f1.closing]; exact hcg
  have key : wsClose c.code (.str c.reason) s1 =
      .ok .ok { s2 with closing := true, sentCloseTime := some (sessionTime s2) } := by
    unfold wsClose
    simp only [h1cl, h1cg, Bool.false_eq_true, if_false]
    cases hcode : c.code with
    | none =>
      rw [hcode] at hl e2
      simp only [hl, Bool.false_eq_true, false_or, and_false, if_false]
      rw [e2]
    | some k =>
      rw [hcode] at hl e2
      have hk : ¬ k ≥ 65536 := by have := hbig k hcode; omega
      simp only [hk, decide_false, hl, Bool.false_eq_true, false_or, and_false, if_false]
      rw [e2]
  let s3 : Sys := { s2 with closing := true, sentCloseTime := some (sessionTime s2) }
  have hon : onClose c.code c.reason s = .ok () { s3 with closing := true } := by
    rw [onClose_open_eq c.code c.reason s hv hcg g.closed, bind_ok e1, bind_ok key]
    rfl
  refine ⟨{ s3 with closing := true }, ?_, ?_⟩
  · rw [onOut_close_frame c.wire.frame rfl c.code c.reason hpay s (Or.inl rfl), bind_ok hon, notClosed_eq]
    show Res.ok (!s2.closed) _ = _
    rw [f2.closed, h1cl]
    rfl
  · refine ⟨f2.cfg.trans f1.cfg, f2.react.trans f1.react, by show s2.closed = false; rw [f2.closed]; exact h1cl,
      rfl, rfl, ?_, f2.sockOpen.trans f1.sockOpen, f2.selOpen.trans f1.selOpen, c2.p.trans c1.p, ?_⟩
    · show delivered s2.trace = _
      rw [c2.evs, c1.evs]
      rfl
    · show View.mk s2.frames ⟨s2.inflHist, s2.inflOut⟩ = View.mk s.frames ⟨s.inflHist, s.inflOut⟩
      rw [c2.frames, c1.frames, q2.hist, q1.hist, q2.out, q1.out]

/-! ### timed scripts -/

/-- one cycle of the loop: the selector returns after `dt` ticks, with nothing to read (`none`) or
    with a read of these bytes -/
abbrev TStep := Nat × Option Bytes

def tstep : TStep → EnvStep
  | (dt, none) => .wait dt none
  | (dt, some c) => .wait dt (some (.data c))

def tscript (l : List TStep) : List EnvStep := l.map tstep

/-- the bytes read, concatenated -/
def tbytes : List TStep → Bytes
  | [] => []
  | (_, none) :: l => tbytes l
  | (_, some c) :: l => c ++ tbytes l

/-- no read is empty (`recv` returning `b''` is the end of the stream) -/
def TNonEmpty (l : List TStep) : Prop := ∀ dt c, (dt, some c) ∈ l → c ≠ []

/-- the script does not end with an idle cycle -/
def EndsRead : List TStep → Prop
  | [] => True
  | [(_, some _)] => True
  | [(_, none)] => False
  | _ :: x :: l => EndsRead (x :: l)

/-- decidable forms of the two script conditions -/
def tnonEmptyB (l : List TStep) : Bool :=
  l.all (fun x => match x.2 with | some c => !c.isEmpty | none => true)

def endsReadB : List TStep → Bool
  | [] => true
  | [(_, some _)] => true
  | [(_, none)] => false
  | _ :: x :: l => endsReadB (x :: l)

theorem TNonEmpty.of_b {l : List TStep} (h : tnonEmptyB l = true) : TNonEmpty l := by
  intro dt c hm hc
  unfold tnonEmptyB at h
  have := List.all_eq_true.mp h (dt, some c) hm
  simp [hc] at this

theorem EndsRead.of_b : ∀ {l : List TStep}, endsReadB l = true → EndsRead l
  | [], _ => trivial
  | [(_, some _)], _ => trivial
  | [(_, none)], h => by simp [endsReadB] at h
  | (_, none) :: x :: l, h => EndsRead.of_b (l := x :: l) h
  | (_, some _) :: x :: l, h => EndsRead.of_b (l := x :: l) h

theorem TNonEmpty.tail {x : TStep} {l : List TStep} (h : TNonEmpty (x :: l)) : TNonEmpty l :=
  fun dt c hm => h dt c (List.mem_cons_of_mem _ hm)

theorem tbytes_append (a b : List TStep) : tbytes (a ++ b) = tbytes a ++ tbytes b := by
  induction a with
  | nil => rfl
  | cons x r ih =>
    obtain ⟨dt, o⟩ := x
    cases o with
    | none => simpa [tbytes] using ih
    | some c => simp [tbytes, ih]

theorem tbytes_ne_nil (l : List TStep) (h0 : l ≠ []) (hne : TNonEmpty l) (he : EndsRead l) : tbytes l ≠ [] := by
  induction l with
  | nil => exact (h0 rfl).elim
  | cons x r ih =>
    obtain ⟨dt, o⟩ := x
    cases o with
    | some c =>
      intro e
      have : c = [] := (List.append_eq_nil_iff.mp (show c ++ tbytes r = [] from e)).1
      exact hne dt c List.mem_cons_self this
    | none =>
      cases r with
      | nil => exact he.elim
      | cons y r' => exact ih (by simp) hne.tail he

theorem delivered_tick (s : Sys) (dt : Nat) : delivered (tick s dt).trace = delivered s.trace := by
  unfold tick
  by_cases h : dt = 0
  · simp [h]
  · simp only [h, ne_eq, not_false_eq_true, if_true]
    rfl

/-- what a cycle of the loop leaves alone; `es`: the events delivered in it -/
structure StepT (es : List Event) (s s' : Sys) : Prop where
  cfg : s'.cfg = s.cfg
  react : s'.react = s.react
  sel : s'.selOpen = s.selOpen
  evs : delivered s'.trace = es ++ delivered s.trace

theorem StepT.refl (s : Sys) : StepT [] s s := ⟨rfl, rfl, rfl, rfl⟩

theorem StepT.trans {e1 e2 : List Event} {a b c : Sys} (h1 : StepT e1 a b) (h2 : StepT e2 b c) :
    StepT (e2 ++ e1) a c :=
  ⟨h2.cfg.trans h1.cfg, h2.react.trans h1.react, h2.sel.trans h1.sel, by rw [h2.evs, h1.evs, List.append_assoc]⟩

/-- between two cycles of the loop, frames phase, the server's Close not yet received -/
structure Mid (z : ZP) (s : Sys) : Prop where
  g : TG s
  z : ZOk z s
  ncg : s.closing = false
  nh : s.p.cont ≠ .header

/-- the top of a cycle from a `Mid` state: the clock advances, `_regular()` runs -/
theorem regular_mid (z : ZP) (dt : Nat) (s : Sys) (m : Mid z s) :
    ∃ s2, regular (tick s dt) = .ok () s2 ∧ Mid z s2 ∧ view s2 = view s ∧ s2.p = s.p ∧ StepT [] s s2 := by
  obtain ⟨s2, hr, c2, f2, q2⟩ := regular_T s dt m.g
  refine ⟨s2, hr, ⟨(m.g.tick dt).of_fix f2, ⟨?_, ?_, ?_⟩, ?_, ?_⟩, ?_, c2.p, ⟨f2.cfg, f2.react, f2.selOpen, ?_⟩⟩
  · rw [f2.cfg]; exact m.z.infl
  · rw [q2.comp]; exact m.z.comp
  · rw [q2.dec]; exact m.z.dec
  · rw [f2.closing]; exact m.ncg
  · rw [c2.p]; exact m.nh
  · unfold view; rw [c2.frames, q2.hist, q2.out]; rfl
  · rw [c2.evs, delivered_tick]

/-- **an idle cycle** -/
theorem idle_step (z : ZP) (dt : Nat) (rest : List EnvStep) (s : Sys) (m : Mid z s) :
    ∃ s2, loop (.wait dt none :: rest) s = loop rest s2 ∧ Mid z s2 ∧ view s2 = view s ∧ s2.p = s.p ∧
      StepT [] s s2 := by
  obtain ⟨s2, hr, m2, v2, p2, st⟩ := regular_mid z dt s m
  refine ⟨s2, ?_, m2, v2, p2, st⟩
  rw [SegLoop.loop_wait dt none rest s m.g.closed, hr]

theorem fin_ok (r : PRun) (he : r.err = none) (s : Sys) : r.fin s = .ok true { s with p := r.p } := by
  unfold PRun.fin; rw [he]

/-- **a cycle that reads `c`**, the frames completed in it being `F1` (not the server's Close) -/
theorem read_step (z : ZP) (dt : Nat) (c : Bytes) (hne : c ≠ []) (rest : List EnvStep) (s : Sys) (m : Mid z s)
    (F1 : List Frame) (e1 : List Event) (v1 : View) (he : EatSeq z F1 e1 (view s) v1)
    (hpe : (pRun s.cfg.v s.p c).err = none)
    (hpo : (pRun s.cfg.v s.p c).outs.map (·.2) = F1.map Out.frame) :
    ∃ s3, loop (.wait dt (some (.data c)) :: rest) s = loop rest s3 ∧ Mid z s3 ∧ view s3 = v1 ∧
      s3.p = (pRun s.cfg.v s.p c).p ∧ StepT e1 s s3 := by
  obtain ⟨s2, hr, m2, v2, p2, st2⟩ := regular_mid z dt s m
  have hfold := feedLoop_eq_fold c s2 m2.nh
  rw [st2.cfg, p2] at hfold
  obtain ⟨s', hcons, r', v', g', z'⟩ := consume_eatSeq z F1 e1 (view s) v1 he _ hpo
    (pRun s.cfg.v s.p c).fin [] s2 m2.g m2.z v2
  rw [List.append_nil] at hcons
  have hfl : feedLoop c s2 = .ok true { s' with p := (pRun s.cfg.v s.p c).p } := by
    rw [hfold, hcons]
    exact fin_ok _ hpe s'
  have hws : wsFeed c s2 = .ok () { s' with p := (pRun s.cfg.v s.p c).p } :=
    wsFeed_of_feedBody_ok _ s2 _ m2.g.closed (by rw [feedBody_frames _ _ m2.nh, hfl])
  refine ⟨{ s' with p := (pRun s.cfg.v s.p c).p }, ?_, ⟨⟨g'.app, g'.pt, g'.ct, g'.sock, g'.closed⟩,
    ⟨z'.infl, z'.comp, z'.dec⟩, ?_, ?_⟩, v', rfl, ?_⟩
  · rw [E2E.loop_wait_data dt c rest s s2 m.g.closed hr m2.g.sock hne, hws]
  · show s'.closing = false
    rw [r'.fix.closing]; exact m2.ncg
  · exact ((step_feedLoop c).ok hfl).contNH m2.nh
  · have : StepT e1 s2 s' := ⟨r'.fix.cfg, r'.fix.react, r'.fix.selOpen, r'.evs⟩
    have := st2.trans this
    exact ⟨this.cfg, this.react, this.sel, by simpa using this.evs⟩

/-- the state after the cycle in which the server's Close was read -/
structure AfterClose (c : CloseF) (es : List Event) (s s' : Sys) : Prop where
  st : StepT (c.event :: es) s s'
  closed : s'.closed = false
  closing : s'.closing = true
  sct : s'.sentCloseTime = some (sessionTime s')
  app : SendOnly s'.react
  pt : s'.cfg.pingTimeout = 0

/-- **the cycle that reads the end of the stream**: the frames `F1`, then the server's Close -/
theorem read_step_close (z : ZP) (dt : Nat) (c : Bytes) (hne : c ≠ []) (rest : List EnvStep) (s : Sys) (m : Mid z s)
    (F1 : List Frame) (e1 : List Event) (v1 : View) (he : EatSeq z F1 e1 (view s) v1)
    (cf : CloseF) (hcf : cf.Ok)
    (hpe : (pRun s.cfg.v s.p c).err = none)
    (hpo : (pRun s.cfg.v s.p c).outs.map (·.2) = (F1 ++ [cf.wire.frame]).map Out.frame) :
    ∃ s3, loop (.wait dt (some (.data c)) :: rest) s = loop rest s3 ∧ AfterClose cf e1 s s3 ∧
      s3.p = (pRun s.cfg.v s.p c).p := by
  obtain ⟨s2, hr, m2, v2, p2, st2⟩ := regular_mid z dt s m
  have hfold := feedLoop_eq_fold c s2 m2.nh
  rw [st2.cfg, p2] at hfold
  rw [List.map_append] at hpo
  obtain ⟨o1, o2, ho, hm1, hm2⟩ := List.map_eq_append_iff.mp hpo
  obtain ⟨x, rest2, rfl, hx, hrest2⟩ := List.map_eq_cons_iff.mp hm2
  have : rest2 = [] := by simpa using hrest2
  subst this
  obtain ⟨pc, o⟩ := x
  simp only at hx
  subst hx
  obtain ⟨s', hcons, r', v', g', z'⟩ := consume_eatSeq z F1 e1 (view s) v1 he o1 hm1
    (pRun s.cfg.v s.p c).fin [(pc, .frame cf.wire.frame)] s2 m2.g m2.z v2
  obtain ⟨s'', hcl, cl⟩ := onOut_close_T cf hcf { s' with p := pc } ⟨g'.app, g'.pt, g'.ct, g'.sock, g'.closed⟩
    (by show s'.closing = false; rw [r'.fix.closing]; exact m2.ncg)
  have hfl : feedLoop c s2 = .ok true { s'' with p := (pRun s.cfg.v s.p c).p } := by
    rw [hfold, ho, hcons]
    simp only [consume]
    rw [hcl]
    exact fin_ok _ hpe s''
  have hws : wsFeed c s2 = .ok () { s'' with p := (pRun s.cfg.v s.p c).p } :=
    wsFeed_of_feedBody_ok _ s2 _ m2.g.closed (by rw [feedBody_frames _ _ m2.nh, hfl])
  refine ⟨{ s'' with p := (pRun s.cfg.v s.p c).p }, ?_, ⟨?_, cl.closed, cl.closing, cl.sct, ?_, ?_⟩, rfl⟩
  · rw [E2E.loop_wait_data dt c rest s s2 m.g.closed hr m2.g.sock hne, hws]
  · have h1 : StepT e1 s2 s' := ⟨r'.fix.cfg, r'.fix.react, r'.fix.selOpen, r'.evs⟩
    have h2 : StepT [cf.event] s' s'' := ⟨cl.cfg, cl.react, cl.sel, cl.evs⟩
    have := st2.trans (h1.trans h2)
    exact ⟨this.cfg, this.react, this.sel, by simpa using this.evs⟩
  · show SendOnly s''.react
    rw [cl.react]; exact g'.app
  · show s''.cfg.pingTimeout = 0
    rw [cl.cfg]; exact g'.pt

/-! ### the whole timed script -/

def closeFrames : Option CloseF → List Frame
  | none => []
  | some c => [c.wire.frame]

def closeEvents : Option CloseF → List Event
  | none => []
  | some c => [c.event]

/-- the state after the last read -/
def Fin (z : ZP) (cl : Option CloseF) (es : List Event) (vE : View) (s sE : Sys) : Prop :=
  match cl with
  | none => Mid z sE ∧ view sE = vE ∧ StepT es s sE
  | some c => AfterClose c es s sE

theorem split_tail {α : Type} (F1 F2 fs cf : List α) (h : F1 ++ F2 = fs ++ cf) (hne : F2 ≠ [])
    (hcf : cf.length ≤ 1) : ∃ F2', F2 = F2' ++ cf ∧ fs = F1 ++ F2' := by
  cases cf with
  | nil => exact ⟨F2, by simp, by simpa using h.symm⟩
  | cons x r =>
    have : r = [] := by
      cases r with
      | nil => rfl
      | cons y r' => simp at hcf
    subst this
    have e2 : F2 = F2.dropLast ++ [F2.getLast hne] := (List.dropLast_concat_getLast hne).symm
    rw [e2, ← List.append_assoc] at h
    obtain ⟨h1, h2⟩ := List.append_inj' h rfl
    refine ⟨F2.dropLast, ?_, h1.symm⟩
    rw [← h2]; exact e2

/-- **Delivery for every segmentation and every timing** (frames phase).  `l` is any timed script
    — idle cycles and non-empty reads in any order, any waits — that ends with a read; its bytes
    parse (from the parser state of `s`) without error into the frames `fs` followed by the
    server's Close frame if `cl = some c`, ending at a frame boundary; `fs` are steps of the
    consumer from the view of `s` yielding the events `es`.  Then the loop runs through the whole
    of `l` and goes on with `rest` from a state `sE` in which exactly `es` (then `Closing`) have been
    delivered. -/
theorem timed_frames (z : ZP) (l : List TStep) (hne : TNonEmpty l) (hend : EndsRead l)
    (s : Sys) (m : Mid z s) (fs : List Frame) (es : List Event) (vE : View) (he : EatSeq z fs es (view s) vE)
    (cl : Option CloseF) (hcl : ∀ c, cl = some c → c.Ok)
    (hpe : (pRun s.cfg.v s.p (tbytes l)).err = none)
    (hpo : (pRun s.cfg.v s.p (tbytes l)).outs.map (·.2) = (fs ++ closeFrames cl).map Out.frame)
    (hpb : Boundary (pRun s.cfg.v s.p (tbytes l)).p)
    (rest : List EnvStep) :
    ∃ sE, loop (tscript l ++ rest) s = loop rest sE ∧ Fin z cl es vE s sE ∧
      sE.p = (pRun s.cfg.v s.p (tbytes l)).p := by
  induction l generalizing s fs es with
  | nil =>
    simp only [tbytes, pRun_nil] at hpo hpb ⊢
    have hnil : fs ++ closeFrames cl = [] := by simpa using hpo.symm
    obtain ⟨hfs, hcf⟩ := List.append_eq_nil_iff.mp hnil
    subst hfs
    obtain ⟨rfl, rfl⟩ := he
    cases cl with
    | some c => simp [closeFrames] at hcf
    | none => exact ⟨s, rfl, ⟨m, rfl, StepT.refl s⟩, rfl⟩
  | cons x l' ih =>
    obtain ⟨dt, o⟩ := x
    cases o with
    | none =>
      have hl' : l' ≠ [] := by
        intro e; subst e; exact hend
      have hend' : EndsRead l' := by
        cases l' with
        | nil => exact (hl' rfl).elim
        | cons y r => exact hend
      obtain ⟨s2, hloop, m2, v2, p2, st2⟩ := idle_step z dt (tscript l' ++ rest) s m
      have hb : tbytes ((dt, none) :: l') = tbytes l' := rfl
      rw [hb] at hpe hpo hpb ⊢
      obtain ⟨sE, hE, fE, pE⟩ := ih hne.tail hend' s2 m2 fs es (by rw [v2]; exact he)
        (by rw [st2.cfg, p2]; exact hpe) (by rw [st2.cfg, p2]; exact hpo) (by rw [st2.cfg, p2]; exact hpb)
      refine ⟨sE, ?_, ?_, by rw [pE, st2.cfg, p2]⟩
      · show loop (.wait dt none :: (tscript l' ++ rest)) s = _
        rw [hloop, hE]
      · cases cl with
        | none =>
          obtain ⟨a, b, c⟩ := fE
          have := st2.trans c
          exact ⟨a, b, ⟨this.cfg, this.react, this.sel, by simpa using this.evs⟩⟩
        | some cf =>
          have := st2.trans fE.st
          exact ⟨⟨this.cfg, this.react, this.sel, by simpa using this.evs⟩, fE.closed, fE.closing, fE.sct, fE.app, fE.pt⟩
    | some c =>
      have hc : c ≠ [] := hne dt c List.mem_cons_self
      have hb : tbytes ((dt, some c) :: l') = c ++ tbytes l' := rfl
      rw [hb] at hpe hpo hpb ⊢
      obtain ⟨e1, e2, e3, e4⟩ := pRun_append_ok s.cfg.v s.p c (tbytes l') hpe
      rw [e3] at hpo
      rw [e4] at hpb ⊢
      cases l' with
      | nil =>
        -- the last read
        simp only [tbytes, pRun_nil, List.append_nil] at hpo hpb ⊢
        cases cl with
        | none =>
          simp only [closeFrames, List.append_nil] at hpo
          obtain ⟨s3, hloop, m3, v3, p3, st3⟩ := read_step z dt c hc (tscript [] ++ rest) s m fs es vE he e1 hpo
          exact ⟨s3, hloop, ⟨m3, v3, st3⟩, p3⟩
        | some cf =>
          obtain ⟨s3, hloop, a3, p3⟩ := read_step_close z dt c hc (tscript [] ++ rest) s m fs es vE he cf
            (hcl cf rfl) e1 hpo
          exact ⟨s3, hloop, a3, p3⟩
      | cons y r =>
        have hy : tbytes (y :: r) ≠ [] := tbytes_ne_nil _ (by simp) hne.tail hend
        have ho2 : (pRun s.cfg.v (pRun s.cfg.v s.p c).p (tbytes (y :: r))).outs ≠ [] := by
          intro e
          exact pRun_silent_not_boundary _ _ _ hy e e2 hpb
        rw [List.map_append] at hpo
        obtain ⟨F1, F2, hF, hm1, hm2⟩ := List.map_eq_append_iff.mp hpo.symm
        have hF2 : F2 ≠ [] := by
          intro e; subst e
          apply ho2
          simpa using hm2.symm
        obtain ⟨F2', hF2', hfs⟩ := split_tail F1 F2 fs (closeFrames cl) hF.symm hF2
          (by cases cl <;> simp [closeFrames])
        subst hfs
        obtain ⟨x1, x2, v1, he1, he2, rfl⟩ := eatSeq_split he
        obtain ⟨s3, hloop, m3, v3, p3, st3⟩ := read_step z dt c hc (tscript (y :: r) ++ rest) s m F1 x1 v1 he1 e1 hm1.symm
        obtain ⟨sE, hE, fE, pE⟩ := ih hne.tail hend s3 m3 F2' x2 (by rw [v3]; exact he2)
          (by rw [st3.cfg, p3]; exact e2) (by rw [st3.cfg, p3, ← hF2']; exact hm2.symm) (by rw [st3.cfg, p3]; exact hpb)
        refine ⟨sE, ?_, ?_, by rw [pE, st3.cfg, p3]⟩
        · show loop (.wait dt (some (.data c)) :: (tscript (y :: r) ++ rest)) s = _
          rw [hloop, hE]
        · cases cl with
          | none =>
            obtain ⟨a, b, c'⟩ := fE
            have := st3.trans c'
            exact ⟨a, b, ⟨this.cfg, this.react, this.sel, this.evs⟩⟩
          | some cf =>
            have := st3.trans fE.st
            exact ⟨⟨this.cfg, this.react, this.sel, by simpa using this.evs⟩, fE.closed, fE.closing, fE.sct, fE.app, fE.pt⟩

/-! ### after the last read: idle cycles, then the end of the stream -/

/-- `B` ticks may still pass without the close timer (if armed) falling due -/
structure TailOK (B : Nat) (s : Sys) : Prop where
  app : SendOnly s.react
  pt : s.cfg.pingTimeout = 0
  closed : s.closed = false
  ct : s.cfg.closeTimeout = 0 ∨ s.sentCloseTime = none ∨
    ∃ tC, s.sentCloseTime = some tC ∧ sessionTime s + B < tC + s.cfg.closeTimeout

theorem sessionTime_tick_le (s : Sys) (dt : Nat) : sessionTime (tick s dt) ≤ sessionTime s + dt := by
  unfold sessionTime tick
  cases s.startTime with
  | none => simp
  | some t0 => simp only []; omega

theorem tail_step (B dt : Nat) (hdt : dt ≤ B) (s : Sys) (h : TailOK B s) :
    ∃ s2, regular (tick s dt) = .ok () s2 ∧ TailOK (B - dt) s2 ∧ StepT [] s s2 ∧ s2.closing = s.closing := by
  have hle := sessionTime_tick_le s dt
  have g : Good (tick s dt) := by
    refine ⟨h.app.quiet, Or.inl h.pt, ?_⟩
    rcases h.ct with h0 | h0 | ⟨tC, h1, h2⟩
    · exact Or.inl h0
    · exact Or.inr (fun ct hc => by rw [show (tick s dt).sentCloseTime = s.sentCloseTime from rfl, h0] at hc; cases hc)
    · refine Or.inr (fun ct hc => ?_)
      have e : (tick s dt).sentCloseTime = s.sentCloseTime := rfl
      rw [e, h1] at hc
      cases hc
      show sessionTime (tick s dt) < tC + s.cfg.closeTimeout
      omega
  obtain ⟨_, s2, hr, c2⟩ := tot_regular (tick s dt) g
  have f2 : Fix (tick s dt) s2 := (fixr_regular).ok hr h.app
  refine ⟨s2, hr, ⟨by rw [f2.react]; exact h.app, by rw [f2.cfg]; exact h.pt, by rw [f2.closed]; exact h.closed, ?_⟩,
    ⟨f2.cfg, f2.react, f2.selOpen, by rw [c2.evs, delivered_tick]⟩, f2.closing⟩
  rw [f2.cfg, f2.sentCloseTime, f2.sessionTime]
  rcases h.ct with h0 | h0 | ⟨tC, h1, h2⟩
  · exact Or.inl h0
  · exact Or.inr (Or.inl h0)
  · refine Or.inr (Or.inr ⟨tC, h1, ?_⟩)
    show sessionTime (tick s dt) + (B - dt) < tC + s.cfg.closeTimeout
    omega

/-- cycles in which nothing is read -/
def idles (ws : List Nat) : List EnvStep := ws.map (fun dt => .wait dt none)

/-- **the idle cycles and the end of the stream**: no event but Polls; the loop ends with
    `connection-lost` if the websocket is not closing, normally otherwise -/
theorem tail_loop (ws : List Nat) (dtE : Nat) (B : Nat) (hB : ws.sum + dtE ≤ B) (s : Sys) (h : TailOK B s) :
    ∃ s6, loop (idles ws ++ [.wait dtE (some .eof)]) s =
        (if ¬ s6.closing ∧ ¬ s6.closed then .err (.socketFail "connection-lost") s6 else .ok () s6) ∧
      StepT [] s s6 ∧ s6.closing = s.closing ∧ s6.closed = false ∧ SendOnly s6.react := by
  induction ws generalizing s B with
  | nil =>
    obtain ⟨s6, hr, t6, st, cg⟩ := tail_step B dtE (by simpa using hB) s h
    exact ⟨s6, E2E.loop_eof dtE [] s s6 h.closed hr, st, cg, t6.closed, t6.app⟩
  | cons dt r ih =>
    have hsum : dt + (r.sum + dtE) ≤ B := by simpa [Nat.add_assoc] using hB
    obtain ⟨s2, hr, t2, st2, cg2⟩ := tail_step B dt (by omega) s h
    obtain ⟨s6, hl, st6, cg6, cl6, a6⟩ := ih (B - dt) (by omega) s2 t2
    refine ⟨s6, ?_, ?_, cg6.trans cg2, cl6, a6⟩
    · show loop (.wait dt none :: (idles r ++ [.wait dtE (some .eof)])) s = _
      rw [SegLoop.loop_wait dt none _ s h.closed, hr]
      exact hl
    · have := st2.trans st6
      exact ⟨this.cfg, this.react, this.sel, by simpa using this.evs⟩

end Lomond.Core.DG
