/-
  Helper lemmas for C04 (protocol violations): an independent RFC 6455 classification of
  two-byte frame headers (`Spec.headerVerdict`), the walk of the model's parser over one
  complete frame (`parse_frame`), which exceptions each layer can raise (`Raises`), which
  observations each layer can add to the trace (`Ext`), and the `except` clauses of
  `WebSocket.feed`.
-/
import Lomond.Proofs.Release
set_option linter.unusedSimpArgs false
set_option linter.unusedVariables false

/-! ### Specification: RFC 6455 §5.2 / §5.4 / §5.5 (+ RFC 7692 §6 for RSV1), written from the RFCs -/
namespace Lomond.Spec

inductive Verdict
  | ok | violation
  deriving Repr, DecidableEq, Inhabited

/-- classification of the first two bytes of a server frame.  `deflate`: permessage-deflate was
    negotiated; `mid`: a fragmented data message is open (a FIN=0 data frame was received and
    its final fragment was not).  Bit fields as in the RFC's diagram:
    `FIN RSV1 RSV2 RSV3 opcode(4) | MASK len(7)`. -/
def headerVerdict (deflate mid : Bool) (b0 b1 : Nat) : Verdict :=
  let fin := b0 >>> 7
  let rsv1 := (b0 >>> 6) &&& 1
  let rsv2 := (b0 >>> 5) &&& 1
  let rsv3 := (b0 >>> 4) &&& 1
  let op := b0 &&& 15
  let masked := b1 >>> 7
  let ln := b1 &&& 127
  -- §5.2: RSV bits MUST be 0 unless an extension defining them was negotiated (RFC 7692: RSV1)
  if rsv2 = 1 ∨ rsv3 = 1 ∨ (rsv1 = 1 ∧ deflate = false) then .violation
  -- §5.2: opcodes 3-7 and 0xB-0xF are reserved
  else if (3 ≤ op ∧ op ≤ 7) ∨ (11 ≤ op ∧ op ≤ 15) then .violation
  -- §5.5: control frames MUST have a payload length of 125 bytes or less and MUST NOT be fragmented
  else if op ≥ 8 ∧ (fin = 0 ∨ ln > 125) then .violation
  -- §5.1: a server MUST NOT mask any frames that it sends to the client
  else if masked = 1 then .violation
  -- §5.4: a continuation frame needs an open message; a new data frame must not interrupt one
  else if op = 0 ∧ mid = false then .violation
  else if (op = 1 ∨ op = 2) ∧ mid = true then .violation
  else .ok

/-- §7.4: close codes a peer must not send in a Close frame (0-999 unused, 1004 reserved,
    1005/1006 internal only, 1014/1015-2999 reserved at the library's date) -/
def reservedCloseCode (c : Nat) : Prop :=
  c < 1000 ∨ c = 1004 ∨ c = 1005 ∨ c = 1006 ∨ (1014 ≤ c ∧ c ≤ 2999)

end Lomond.Spec

namespace Lomond.Core
open Lomond

/-! ### bit fields of a byte -/

theorem byte_fields : ∀ b : Fin 256,
    b.val >>> 7 = b.val / 128 ∧ (b.val >>> 6) &&& 1 = b.val / 64 % 2 ∧ (b.val >>> 5) &&& 1 = b.val / 32 % 2 ∧
    (b.val >>> 4) &&& 1 = b.val / 16 % 2 ∧ b.val &&& 15 = b.val % 16 ∧ b.val &&& 127 = b.val % 128 := by
  decide +kernel

theorem reservedOp_iff : ∀ op : Fin 16,
    isReservedOp op.val = true ↔ (3 ≤ op.val ∧ op.val ≤ 7) ∨ (11 ≤ op.val ∧ op.val ≤ 15) := by
  decide +kernel

/-- the parser-level classes (decided by `FrameParser` alone) -/
def parserViol (deflate : Bool) (b0 b1 : Nat) : Prop :=
  (b0 / 32 % 2 = 1 ∨ b0 / 16 % 2 = 1 ∨ (b0 / 64 % 2 = 1 ∧ deflate = false)) ∨
  ((3 ≤ b0 % 16 ∧ b0 % 16 ≤ 7) ∨ (11 ≤ b0 % 16 ∧ b0 % 16 ≤ 15)) ∨
  (b0 % 16 ≥ 8 ∧ (b0 / 128 = 0 ∨ b1 % 128 > 125)) ∨
  b1 / 128 = 1

/-- the stream-level classes (decided by `WebsocketStream.feed`) -/
def fragViol (mid : Bool) (b0 : Nat) : Prop :=
  (b0 % 16 = 0 ∧ mid = false) ∨ ((b0 % 16 = 1 ∨ b0 % 16 = 2) ∧ mid = true)

instance (d : Bool) (b0 b1 : Nat) : Decidable (parserViol d b0 b1) := by unfold parserViol; exact inferInstance
instance (m : Bool) (b0 : Nat) : Decidable (fragViol m b0) := by unfold fragViol; exact inferInstance

theorem headerVerdict_iff (deflate mid : Bool) (b0 b1 : Nat) (h0 : b0 < 256) (h1 : b1 < 256) :
    Spec.headerVerdict deflate mid b0 b1 = .violation ↔ parserViol deflate b0 b1 ∨ fragViol mid b0 := by
  obtain ⟨e1, e2, e3, e4, e5, _⟩ := byte_fields ⟨b0, h0⟩
  obtain ⟨f1, _, _, _, _, f6⟩ := byte_fields ⟨b1, h1⟩
  simp only [] at e1 e2 e3 e4 e5 f1 f6
  unfold Spec.headerVerdict parserViol fragViol
  simp only [e1, e2, e3, e4, e5, f1, f6]
  split
  · simp_all
  · split
    · simp_all
    · split
      · simp_all
      · split
        · simp_all
        · split
          · simp_all
          · split
            · simp_all
            · simp_all

/-! ### the parser's walk over one complete frame -/

/-- the parser is suspended at `yield self.read(2)` (frame header) -/
structure AwaitHeader (p : PState) : Prop where
  cont : p.cont = .hdr2
  rem : p.remPred = 1
  utf8 : p.utf8 = false
  buf : p.buf = []

/-- what `feedLoop` does with the parser's answer to one bite -/
def afterBite (s : Sys) (r : Except Exn (PState × Option Out)) (rest : Bytes) : Res Bool :=
  match r with
  | .error x => .err x { s with p := deadParser s.p }
  | .ok (p', none) => feedLoop rest { s with p := p' }
  | .ok (p', some o) => contLoop (onOut o { s with p := p' }) rest

theorem feedLoop_bite (chunk rest : Bytes) (s : Sys) (hl : chunk.length = s.p.remPred + 1) :
    feedLoop (chunk ++ rest) s = afterBite s (biteBytes s.cfg.v s.p chunk) rest := by
  have hne : chunk ++ rest ≠ [] := by
    cases chunk with
    | nil => simp at hl
    | cons => simp
  rw [feedLoop]
  simp only [hne, dite_false]
  rw [← hl, List.take_left' rfl, List.drop_left' rfl]
  unfold afterBite contLoop
  cases biteBytes s.cfg.v s.p chunk with
  | error x => rfl
  | ok r =>
    obtain ⟨p', out⟩ := r
    cases out with
    | none => rfl
    | some o =>
      simp only []
      generalize onOut o { s with p := p' } = q
      cases q with
      | err x s2 => rfl
      | ok go s2 => cases go <;> rfl

theorem biteBytes_plain (v : Variant) (p : PState) (chunk : Bytes) (hu : p.utf8 = false) (hb : p.buf = [])
    (hl : chunk.length = p.remPred + 1) : biteBytes v p chunk = resume v p chunk := by
  rw [biteBytes_eq]
  have : ¬ chunk.length < p.remPred + 1 := by omega
  simp only [vres, hu, hb, this, if_false, List.nil_append]
  rfl

/-- the frame `FrameParser.parse` constructs from the first header byte (payload still empty) -/
def hdrFrameV (b0 : Nat) (key : Option Bytes) : Frame :=
  { opcode := b0 % 16, payload := [], fin := b0 / 128, rsv1 := b0 / 64 % 2,
    rsv2 := b0 / 32 % 2, rsv3 := b0 / 16 % 2, mask := key.isSome, maskingKey := key }

/-- the model's verdict on the header fields, in the order the code tests them -/
def parserMsg (deflate : Bool) (b0 b1 : Nat) : Option String :=
  if b0 / 32 % 2 = 1 ∨ b0 / 16 % 2 = 1 ∨ (b0 / 64 % 2 = 1 ∧ deflate = false) then some "reserved bits set"
  else if (3 ≤ b0 % 16 ∧ b0 % 16 ≤ 7) ∨ (11 ≤ b0 % 16 ∧ b0 % 16 ≤ 15) then some "opcode is reserved"
  else if b0 % 16 ≥ 8 ∧ b0 / 128 = 0 then some "control frames may not be fragmented"
  else if b0 % 16 ≥ 8 ∧ b1 % 128 > 125 then some "control frames must be <= 125 bytes in length"
  else none

theorem parserViol_iff (d : Bool) (b0 b1 : Nat) :
    parserViol d b0 b1 ↔ parserMsg d b0 b1 ≠ none ∨ b1 / 128 = 1 := by
  unfold parserViol parserMsg
  cases d <;> (repeat' split) <;> simp_all <;> omega

theorem ite_congr' {α : Sort _} {c d : Prop} [Decidable c] [Decidable d] (h : c ↔ d) {a b a' b' : α}
    (ha : a = a') (hb : b = b') : ite c a b = ite d a' b' := by
  subst ha; subst hb
  by_cases hc : c
  · rw [if_pos hc, if_pos (h.mp hc)]
  · rw [if_neg hc, if_neg (fun hd => hc (h.mpr hd))]

/-- the parser's answer for a header verdict -/
def verdictRes (m : Option String) : Except Exn Unit :=
  match m with
  | some msg => .error (.protocol msg)
  | none => .ok ()

theorem validateFrame_spec (v : Variant) (hv : v.ctrlLen = true) (d : Bool) (b0 b1 len : Nat)
    (key : Option Bytes) (hlen : b1 % 128 > 125 ↔ len > 125) :
    validateFrame v d (hdrFrameV b0 key) len = verdictRes (parserMsg d b0 b1) := by
  have hop := reservedOp_iff ⟨b0 % 16, by omega⟩
  simp only [] at hop
  unfold validateFrame parserMsg
  simp only [apply_ite verdictRes]
  refine ite_congr' ?_ rfl (ite_congr' ?_ rfl (ite_congr' ?_ rfl (ite_congr' ?_ rfl rfl)))
  · cases d <;> simp [hdrFrameV] <;> omega
  · exact hop
  · simp [hdrFrameV, Frame.isControl]; omega
  · simp [hdrFrameV, Frame.isControl, hv]; omega

/-- how feeding the rest of a frame whose header passed `frame.validate()` can end: the payload
    fails the incremental UTF-8 check, the frame was masked, or the frame is handed to the stream
    layer (and the parser is back at a frame header) -/
def BodyOutcome (s : Sys) (f : Frame) (dfa : Nat) (comp : Bool) (payload rest : Bytes) (r : Res Bool) : Prop :=
  (∃ p'', r = .err (.parse "invalid utf8") { s with p := p'' } ∧ Utf8.validate dfa payload = none) ∨
  (f.mask = true ∧ ∃ p'', r = .err (.protocol "server sent masked frame") { s with p := p'' }) ∨
  (f.mask = false ∧ ∃ p', AwaitHeader p' ∧ p'.compression = comp ∧
      r = contLoop (onOut (.frame { f with payload := payload }) { s with p := p' }) rest)

theorem frameDone_spec (v : Variant) (p : PState) (f : Frame) :
    (f.mask = true → frameDone v p f = .error (.protocol "server sent masked frame")) ∧
    (f.mask = false → ∃ p', frameDone v p f = .ok (p', some (.frame f)) ∧ AwaitHeader p' ∧
        p'.compression = p.compression) := by
  unfold frameDone
  constructor
  · intro h; simp [h]
  · intro h; simp only [h, Bool.false_eq_true, if_false]
    exact ⟨_, rfl, ⟨rfl, rfl, rfl, rfl⟩, rfl⟩

theorem vres_none {u : Bool} {d : Nat} {c : Bytes} (h : vres u d c = none) : Utf8.validate d c = none := by
  unfold vres at h; split at h
  · exact h
  · cases h

/-- the pending awaitable is consumed when `parse()` is resumed -/
def clean (p : PState) : PState := { p with remPred := 0, utf8 := false, buf := [] }

theorem resume_payload (v : Variant) (p : PState) (f : Frame) (bytes : Bytes) (hc : p.cont = .payload f) :
    resume v p bytes = frameDone v (clean p) { f with payload := bytes } := by
  simp [resume, clean, hc]

theorem resume_maskKey (v : Variant) (p : PState) (b0 len : Nat) (bytes : Bytes) (hc : p.cont = .maskKey b0 len) :
    resume v p bytes = gotMask v (clean p) b0 len (some bytes) := by
  simp [resume, clean, hc]

theorem resume_len16V (v : Variant) (p : PState) (b0 : Nat) (m : Bool) (bytes : Bytes) (hc : p.cont = .len16 b0 m) :
    resume v p bytes = gotLength v (clean p) b0 m (beVal bytes) := by
  simp [resume, clean, hc]

theorem resume_len64V (v : Variant) (p : PState) (b0 : Nat) (m : Bool) (bytes : Bytes) (hc : p.cont = .len64 b0 m) :
    resume v p bytes = gotLength v (clean p) b0 m (beVal bytes) := by
  simp [resume, clean, hc]

def setDfa (p : PState) (d : Nat) : PState := { p with dfa := d }

theorem biteBytes_full (v : Variant) (p : PState) (chunk : Bytes) (hb : p.buf = [])
    (hl : chunk.length = p.remPred + 1) :
    biteBytes v p chunk =
      match vres p.utf8 p.dfa chunk with
      | none => .error (.parse "invalid utf8")
      | some d => resume v (setDfa p d) chunk := by
  rw [biteBytes_eq]
  have : ¬ chunk.length < p.remPred + 1 := by omega
  cases vres p.utf8 p.dfa chunk with
  | none => rfl
  | some d => simp only [this, if_false, hb, List.nil_append, setDfa]

theorem stage_payload (s : Sys) (f : Frame) (payload rest : Bytes)
    (hc : s.p.cont = .payload f) (hb : s.p.buf = []) (hl : payload.length = s.p.remPred + 1) :
    BodyOutcome s f s.p.dfa s.p.compression payload rest (feedLoop (payload ++ rest) s) := by
  rw [feedLoop_bite payload rest s hl, biteBytes_full _ _ _ hb hl]
  cases hvr : vres s.p.utf8 s.p.dfa payload with
  | none => exact Or.inl ⟨_, rfl, vres_none hvr⟩
  | some d =>
    simp only []
    rw [resume_payload _ _ f _ (show (setDfa s.p d).cont = .payload f from hc)]
    rcases Bool.eq_false_or_eq_true f.mask with hm | hm
    · refine Or.inr (Or.inl ⟨hm, deadParser s.p, ?_⟩)
      rw [(frameDone_spec _ _ { f with payload := payload }).1 hm]; rfl
    · obtain ⟨p', e, ha, hcomp⟩ := (frameDone_spec s.cfg.v
        (clean (setDfa s.p d)) { f with payload := payload }).2 hm
      refine Or.inr (Or.inr ⟨hm, p', ha, hcomp, ?_⟩)
      rw [e]; rfl

theorem gotMask_ok (v : Variant) (p : PState) (b0 len : Nat) (key : Option Bytes)
    (h : validateFrame v p.compression (hdrFrameV b0 key) len = .ok ()) :
    (len ≠ 0 → ∃ pP, gotMask v p b0 len key = .ok (pP, none) ∧ pP.cont = .payload (hdrFrameV b0 key) ∧
        pP.remPred = len - 1 ∧ pP.buf = [] ∧ pP.dfa = p.dfa ∧ pP.compression = p.compression) ∧
    (len = 0 → ∃ p1, gotMask v p b0 len key = frameDone v p1 (hdrFrameV b0 key) ∧
        p1.compression = p.compression) := by
  unfold hdrFrameV at h
  unfold gotMask
  simp only [h]
  constructor
  · intro hne
    simp only [hne, ne_eq, not_false_eq_true, if_true]
    refine ⟨_, rfl, rfl, rfl, rfl, ?_, ?_⟩
    · simp only []; split <;> rfl
    · simp only []; split <;> rfl
  · intro h0
    simp only [h0, ne_eq, not_true_eq_false, if_false]
    refine ⟨_, rfl, ?_⟩
    split <;> rfl

theorem stage_gotMask (s : Sys) (hv : s.cfg.v.ctrlLen = true) (pc : PState) (b0 b1 len : Nat)
    (key : Option Bytes) (payload rest : Bytes)
    (hl : payload.length = len) (hlen : b1 % 128 > 125 ↔ len > 125) :
    match parserMsg pc.compression b0 b1 with
    | some msg => ∃ p'', afterBite s (gotMask s.cfg.v pc b0 len key) (payload ++ rest)
                    = .err (.protocol msg) { s with p := p'' }
    | none => BodyOutcome s (hdrFrameV b0 key) pc.dfa pc.compression payload rest
                (afterBite s (gotMask s.cfg.v pc b0 len key) (payload ++ rest)) := by
  have hvf := validateFrame_spec s.cfg.v hv pc.compression b0 b1 len key hlen
  cases hpm : parserMsg pc.compression b0 b1 with
  | some msg =>
    rw [hpm] at hvf
    simp only [verdictRes] at hvf
    unfold hdrFrameV at hvf
    unfold gotMask
    simp only [hvf]
    exact ⟨_, rfl⟩
  | none =>
    rw [hpm] at hvf
    simp only [verdictRes] at hvf
    obtain ⟨g1, g2⟩ := gotMask_ok s.cfg.v pc b0 len key hvf
    simp only []
    by_cases h0 : len = 0
    · obtain ⟨p1, e, hc1⟩ := g2 h0
      rw [e]
      have hp : payload = [] := List.eq_nil_of_length_eq_zero (hl.trans h0)
      subst hp
      rcases Bool.eq_false_or_eq_true (hdrFrameV b0 key).mask with hm | hm
      · refine Or.inr (Or.inl ⟨hm, deadParser s.p, ?_⟩)
        rw [(frameDone_spec _ _ _).1 hm]; rfl
      · obtain ⟨p', e', ha, hcomp⟩ := (frameDone_spec s.cfg.v p1 (hdrFrameV b0 key)).2 hm
        refine Or.inr (Or.inr ⟨hm, p', ha, hcomp.trans hc1, ?_⟩)
        rw [e']; rfl
    · obtain ⟨pP, e, hc, hr, hb, hdf, hcm⟩ := g1 h0
      rw [e]
      have h := stage_payload { s with p := pP } (hdrFrameV b0 key) payload rest hc hb
        (by simp only [hr]; omega)
      simp only [hdf, hcm] at h
      exact h

/-- the bytes that follow a two-byte header `b0 b1` on the wire: extended length, masking key,
    payload -/
structure WireBody (b1 : Nat) (ext key payload : Bytes) : Prop where
  short : b1 % 128 < 126 → ext = [] ∧ payload.length = b1 % 128
  ext16 : b1 % 128 = 126 → ext.length = 2 ∧ beVal ext = payload.length
  ext64 : b1 % 128 = 127 → ext.length = 8 ∧ beVal ext = payload.length
  key : key.length = if b1 ≥ 128 then 4 else 0
  /-- the extended forms carry a length that needs them at least as far as the 125 limit goes -/
  real : b1 % 128 ≥ 126 → payload.length > 125
  small : payload.length < 2 ^ 63

theorem stage_gotLength (s : Sys) (hv : s.cfg.v.ctrlLen = true) (pc : PState) (b0 b1 len : Nat) (m : Bool)
    (key payload rest : Bytes) (hk : key.length = if m then 4 else 0)
    (hl : payload.length = len) (hlen : b1 % 128 > 125 ↔ len > 125)
    (hsmall : len < 2 ^ 63) :
    match parserMsg pc.compression b0 b1 with
    | some msg => ∃ p'', afterBite s (gotLength s.cfg.v pc b0 m len) (key ++ (payload ++ rest))
                    = .err (.protocol msg) { s with p := p'' }
    | none => BodyOutcome s (hdrFrameV b0 (if m then some key else none)) pc.dfa pc.compression payload rest
                (afterBite s (gotLength s.cfg.v pc b0 m len) (key ++ (payload ++ rest))) := by
  unfold gotLength
  have : ¬ len > 0x7fffffffffffffff := by omega
  simp only [this, if_false]
  cases m with
  | false =>
    simp only [Bool.false_eq_true, if_false] at hk ⊢
    have hk' : key = [] := List.eq_nil_of_length_eq_zero hk
    subst hk'
    exact stage_gotMask s hv pc b0 b1 len none payload rest hl hlen
  | true =>
    simp only [if_true] at hk ⊢
    simp only [afterBite]
    generalize hpM : ({ pc with cont := .maskKey b0 len, remPred := 3, utf8 := false, buf := [] } : PState) = pM
    have c1 : pM.cont = .maskKey b0 len := by rw [← hpM]
    have c2 : pM.remPred = 3 := by rw [← hpM]
    have c3 : pM.utf8 = false := by rw [← hpM]
    have c4 : pM.buf = [] := by rw [← hpM]
    have c5 : (clean pM).dfa = pc.dfa := by rw [← hpM]; rfl
    have c6 : (clean pM).compression = pc.compression := by rw [← hpM]; rfl
    rw [feedLoop_bite key (payload ++ rest) _ (by simp only [hk, c2])]
    rw [biteBytes_plain _ _ _ c3 c4 (by simp only [hk, c2])]
    rw [resume_maskKey _ _ b0 len _ c1]
    have h := stage_gotMask { s with p := pM } hv (clean pM) b0 b1 len (some key) payload rest hl hlen
    rw [c5, c6] at h
    exact h

/-- the parser state while an extended length / masking key is awaited -/
def waitState (p : PState) (c : Cont) (r : Nat) : PState :=
  { clean p with cont := c, remPred := r, utf8 := false, buf := [] }

theorem resume_hdr2 (v : Variant) (p : PState) (b0 b1 : Nat) (hc : p.cont = .hdr2) :
    resume v p [b0, b1] =
      if b1 % 128 = 126 then .ok (waitState p (.len16 b0 (decide (b1 ≥ 128))) 1, none)
      else if b1 % 128 = 127 then .ok (waitState p (.len64 b0 (decide (b1 ≥ 128))) 7, none)
      else gotLength v (clean p) b0 (decide (b1 ≥ 128)) (b1 % 128) := by
  simp [resume, clean, waitState, hc]

/-- **the parser on one complete frame.**  From a frame boundary, with the header bytes `b0 b1`
    followed by the extended length, the masking key and the whole payload (and anything after
    it): either the header is rejected with the message `parserMsg` computes — nothing is handed
    to the stream layer, `rest` is not looked at — or the body ends in one of the three
    `BodyOutcome`s. -/
theorem parse_frame (s : Sys) (hv : s.cfg.v.ctrlLen = true) (hs : AwaitHeader s.p) (b0 b1 : Nat)
    (ext key payload rest : Bytes) (hw : WireBody b1 ext key payload) :
    match parserMsg s.p.compression b0 b1 with
    | some msg => ∃ p'', feedLoop ([b0, b1] ++ (ext ++ (key ++ (payload ++ rest)))) s
                    = .err (.protocol msg) { s with p := p'' }
    | none => BodyOutcome s (hdrFrameV b0 (if decide (b1 ≥ 128) then some key else none)) s.p.dfa
                s.p.compression payload rest
                (feedLoop ([b0, b1] ++ (ext ++ (key ++ (payload ++ rest)))) s) := by
  rw [feedLoop_bite [b0, b1] _ s (by simp [hs.rem])]
  rw [biteBytes_plain _ _ _ hs.utf8 hs.buf (by simp [hs.rem])]
  rw [resume_hdr2 _ _ _ _ hs.cont]
  have hk : key.length = if decide (b1 ≥ 128) = true then 4 else 0 := by
    rw [hw.key]; simp only [decide_eq_true_eq]
  by_cases h126 : b1 % 128 = 126
  · obtain ⟨he, hbe⟩ := hw.ext16 h126
    have hr := hw.real (by omega)
    rw [if_pos h126]
    simp only [afterBite]
    rw [feedLoop_bite ext _ _ (by rw [he]; rfl)]
    rw [biteBytes_plain _ _ _ rfl rfl (by rw [he]; rfl)]
    rw [resume_len16V _ _ b0 _ _ rfl]
    exact stage_gotLength { s with p := waitState s.p (.len16 b0 (decide (b1 ≥ 128))) 1 } hv
      (clean (waitState s.p (.len16 b0 (decide (b1 ≥ 128))) 1)) b0 b1 (beVal ext) (decide (b1 ≥ 128))
      key payload rest hk hbe.symm (by omega) (by have := hw.small; omega)
  · by_cases h127 : b1 % 128 = 127
    · obtain ⟨he, hbe⟩ := hw.ext64 h127
      have hr := hw.real (by omega)
      rw [if_neg h126, if_pos h127]
      simp only [afterBite]
      rw [feedLoop_bite ext _ _ (by rw [he]; rfl)]
      rw [biteBytes_plain _ _ _ rfl rfl (by rw [he]; rfl)]
      rw [resume_len64V _ _ b0 _ _ rfl]
      exact stage_gotLength { s with p := waitState s.p (.len64 b0 (decide (b1 ≥ 128))) 7 } hv
        (clean (waitState s.p (.len64 b0 (decide (b1 ≥ 128))) 7)) b0 b1 (beVal ext) (decide (b1 ≥ 128))
        key payload rest hk hbe.symm (by omega) (by have := hw.small; omega)
    · obtain ⟨he, hpl⟩ := hw.short (by omega)
      subst he
      rw [if_neg h126, if_neg h127]
      simp only [List.nil_append]
      exact stage_gotLength s hv (clean s.p) b0 b1 (b1 % 128) (decide (b1 ≥ 128))
        key payload rest hk hpl (by omega) (by omega)

/-- a 64-bit length with the top bit set is rejected as soon as the eight length bytes are in:
    no payload byte is awaited, nothing after the length field is looked at -/
theorem too_large (s : Sys) (hs : AwaitHeader s.p) (b0 b1 : Nat) (h127 : b1 % 128 = 127)
    (ext rest : Bytes) (he : ext.length = 8) (hbig : beVal ext ≥ 2 ^ 63) :
    ∃ p'', feedLoop ([b0, b1] ++ (ext ++ rest)) s = .err (.protocol "payload is too large") { s with p := p'' } := by
  rw [feedLoop_bite [b0, b1] _ s (by simp [hs.rem])]
  rw [biteBytes_plain _ _ _ hs.utf8 hs.buf (by simp [hs.rem])]
  rw [resume_hdr2 _ _ _ _ hs.cont]
  have h126 : ¬ b1 % 128 = 126 := by omega
  rw [if_neg h126, if_pos h127]
  simp only [afterBite]
  rw [feedLoop_bite ext _ _ (by rw [he]; rfl)]
  rw [biteBytes_plain _ _ _ rfl rfl (by rw [he]; rfl)]
  rw [resume_len64V _ _ b0 _ _ rfl]
  unfold gotLength
  have : beVal ext > 0x7fffffffffffffff := by omega
  simp only [this, if_true]
  exact ⟨_, rfl⟩

/-! ### which exceptions each layer can raise -/

/-- every exception `m` can raise satisfies `E` -/
def Raises (E : Exn → Prop) (m : M α) : Prop := ∀ s x s', m s = .err x s' → E x

/-- `m` never raises -/
abbrev NoRaise (m : M α) : Prop := Raises (fun _ => False) m

theorem Raises.mono {E E' : Exn → Prop} {m : M α} (h : Raises E m) (hi : ∀ x, E x → E' x) : Raises E' m :=
  fun s x s' e => hi x (h s x s' e)

theorem NoRaise.to {E : Exn → Prop} {m : M α} (h : NoRaise m) : Raises E m := h.mono (fun _ f => f.elim)

theorem raises_pure {E : Exn → Prop} (a : α) : Raises E (pure a : M α) := by
  intro s x s' h; cases h

theorem raises_bind {E : Exn → Prop} {m : M α} {f : α → M β} (hm : Raises E m) (hf : ∀ a, Raises E (f a)) :
    Raises E (m >>= f) := by
  intro s x s' h
  change M.bind m f s = _ at h
  unfold M.bind at h
  cases hms : m s with
  | ok a s1 => rw [hms] at h; exact hf a s1 x s' h
  | err y s1 => rw [hms] at h; cases h; exact hm s _ _ hms

/-- what escapes a `try` is what the handler raises -/
theorem raises_tryC {E : Exn → Prop} {m : M α} {h : Exn → M α} (hh : ∀ x, Raises E (h x)) :
    Raises E (tryC m h) := by
  intro s x s' e
  unfold tryC at e
  cases hms : m s with
  | ok a s1 => rw [hms] at e; cases e
  | err y s1 => rw [hms] at e; exact hh y s1 x s' e

theorem raises_getS {E : Exn → Prop} : Raises E getS := by intro s x s' h; cases h
theorem raises_modS {E : Exn → Prop} (f : Sys → Sys) : Raises E (modS f) := by intro s x s' h; cases h
theorem raises_throwE {E : Exn → Prop} {x : Exn} (h : E x) : Raises E (throwE x : M α) := by
  intro s y s' e; cases e; exact h
theorem raises_liftE {E : Exn → Prop} (r : Except Exn α) (h : ∀ x, r = .error x → E x) : Raises E (liftE r) := by
  intro s y s' e
  unfold liftE at e
  cases r with
  | ok a => cases e
  | error x => cases e; exact h _ rfl
theorem raises_ite {E : Exn → Prop} (c : Prop) [Decidable c] {m k : M α} (hm : Raises E m) (hk : Raises E k) :
    Raises E (if c then m else k) := by
  split <;> assumption

theorem noRaise_closeSocket : NoRaise closeSocket := by
  intro s x s' h; unfold closeSocket at h; split at h <;> cases h

theorem noRaise_write (d : Bytes) (z : Option (Nat × Bytes)) : NoRaise (write d z) := by
  intro s x s' h
  unfold write at h
  simp only [] at h
  repeat' split at h
  all_goals cases h

theorem noRaise_sendFrame (op : Nat) (pl : Bytes) (c : Option Bytes) : NoRaise (sendFrame op pl c) := by
  intro s x s' h
  unfold sendFrame at h
  simp only [] at h
  repeat' split at h
  all_goals first
    | (cases h; done)
    | exact noRaise_write _ _ _ _ _ h

theorem noRaise_wsClose (c : Option Nat) (r : Arg) : NoRaise (wsClose c r) := by
  intro s x s' h
  unfold wsClose at h
  simp only [] at h
  repeat' split at h
  all_goals first
    | (cases h; done)
    | (rename_i heq; exact noRaise_sendFrame _ _ _ _ _ _ heq)

theorem noRaise_onDisconnect : NoRaise onDisconnect := by
  unfold onDisconnect
  exact raises_bind noRaise_closeSocket (fun _ => raises_modS _)

theorem noRaise_notClosed : NoRaise notClosed := by
  intro s x s' h; cases h

/-- raised in `run()`'s frame while `feed` is suspended at a `yield` -/
def IsOuter (x : Exn) : Prop := ∃ y, x = .outer y

/-- whatever goes wrong at a `yield` of `WebSocket.feed` (bookkeeping, the application, the
    timers) is an exception of `run()`'s frame, never one of `feed`'s own -/
theorem raises_feedYield (b : Bool) (e : Event) : Raises IsOuter (feedYield b e) := by
  unfold feedYield
  apply raises_tryC
  intro x
  apply raises_bind
  · split
    · exact noRaise_onDisconnect.to
    · exact raises_pure _
  · intro _; exact raises_throwE ⟨x, rfl⟩

/-- the exceptions the stream / message / websocket layers raise for a frame that passed the
    fragmentation test -/
inductive StreamErr : Exn → Prop
  | outer (x : Exn) : StreamErr (.outer x)
  | critical (msg : String) : StreamErr (.critical msg)
  | other (k : String) : StreamErr (.other k)
  | closePayload : StreamErr (.protocol "invalid close frame payload")
  | closeCode (c : Nat) : StreamErr (.protocol s!"reserved close code ({c})")

theorem closeFromPayload_err (pl : Bytes) (x : Exn) (h : closeFromPayload pl = .error x) : StreamErr x := by
  unfold closeFromPayload at h
  simp only [] at h
  repeat' split at h
  all_goals first
    | (cases h; done)
    | (cases h; first | exact .closePayload | exact .critical _)

theorem msgOfPayload_err (op : Nat) (pl : Bytes) (x : Exn) (h : msgOfPayload op pl = .error x) : StreamErr x := by
  unfold msgOfPayload at h
  repeat' split at h
  all_goals first
    | (cases h; done)
    | (cases h; exact .critical _)
    | exact closeFromPayload_err _ _ h

theorem raises_inflateMessage (j : Bytes) : Raises StreamErr (inflateMessage j) := by
  intro s x s' h
  unfold inflateMessage at h
  simp only [] at h
  repeat' split at h
  all_goals first
    | (cases h; done)
    | (cases h; exact .critical _)

theorem raises_buildMessage (fs : List Frame) : Raises StreamErr (buildMessage fs) := by
  unfold buildMessage
  split
  · exact raises_throwE (.other _)
  · simp only []
    refine raises_bind raises_getS (fun s => raises_bind ?_ (fun pl => raises_liftE _ (msgOfPayload_err _ _)))
    split
    · exact raises_inflateMessage _
    · exact raises_pure _

theorem raises_checkCloseCode (c : Option Nat) : Raises StreamErr (checkCloseCode c) := by
  unfold checkCloseCode
  split
  · split
    · exact raises_throwE (.closeCode _)
    · exact raises_pure _
  · exact raises_pure _

theorem raises_raiseIfArgError (r : ActRes) : Raises StreamErr (raiseIfArgError r) := by
  unfold raiseIfArgError
  split
  · exact raises_throwE (.other _)
  · exact raises_pure _

theorem raises_feedYield' (b : Bool) (e : Event) : Raises StreamErr (feedYield b e) :=
  (raises_feedYield b e).mono (fun x ⟨y, h⟩ => h ▸ .outer y)

theorem raises_onClose (c : Option Nat) (r : List Nat) : Raises StreamErr (onClose c r) := by
  unfold onClose
  refine raises_bind (raises_checkCloseCode c) (fun _ => raises_bind raises_getS (fun s => ?_))
  split
  · exact raises_pure _
  · split
    · exact raises_bind (raises_feedYield' _ _) (fun _ => raises_modS _)
    · exact raises_bind (raises_feedYield' _ _) (fun _ => raises_bind (noRaise_wsClose _ _).to (fun r =>
        raises_bind (raises_raiseIfArgError r) (fun _ => raises_modS _)))

theorem raises_onMessage (m : Msg) : Raises StreamErr (onMessage m) := by
  unfold onMessage
  split <;> first | exact raises_onClose _ _ | exact raises_feedYield' _ _ | exact raises_pure _

/-- the two fragmentation errors of `WebsocketStream.feed` -/
def FragErr (x : Exn) : Prop :=
  x = .protocol "continuation frame has nothing to continue" ∨ x = .protocol "continuation frame expected"

/-- the part of `WebsocketStream.feed` that follows the fragmentation test -/
theorem raises_acceptData (f : Frame) : Raises StreamErr
    (do modS fun s => { s with frames := s.frames ++ [f] }
        if f.fin ≠ 0 then do
          let s ← getS
          let m ← buildMessage s.frames
          onMessage m
          modS fun s => { s with frames := [] }
        else pure () : M Unit) := by
  refine raises_bind (raises_modS _) (fun _ => ?_)
  split
  · exact raises_bind raises_getS (fun s => raises_bind (raises_buildMessage _) (fun m =>
      raises_bind (raises_onMessage m) (fun _ => raises_modS _)))
  · exact raises_pure _

/-! ### fragmentation rules of `WebsocketStream.feed` -/

theorem onDataFrame_nothing (f : Frame) (s : Sys) (h1 : f.isContinuation = true) (h2 : s.frames = []) :
    onDataFrame f s = .err (.protocol "continuation frame has nothing to continue") s := by
  unfold onDataFrame
  rw [bind_ok (show getS s = .ok s s from rfl)]
  simp only [h1, h2, and_self, if_true]
  rfl

theorem onDataFrame_expected (f : Frame) (s : Sys) (h1 : f.isContinuation = false) (h2 : s.frames ≠ []) :
    onDataFrame f s = .err (.protocol "continuation frame expected") s := by
  unfold onDataFrame
  rw [bind_ok (show getS s = .ok s s from rfl)]
  simp only [h1, h2, Bool.false_eq_true, false_and, if_false, not_false_eq_true, ne_eq, and_self, if_true]
  rfl

/-- a data frame that respects the fragmentation rules is never answered with a fragmentation
    error (nor with any other header-level error) -/
theorem onDataFrame_accept (f : Frame) (s : Sys)
    (h1 : ¬ (f.isContinuation = true ∧ s.frames = [])) (h2 : ¬ (f.isContinuation = false ∧ s.frames ≠ []))
    (x : Exn) (s' : Sys) (h : onDataFrame f s = .err x s') : StreamErr x := by
  unfold onDataFrame at h
  rw [bind_ok (show getS s = .ok s s from rfl)] at h
  have h2' : ¬ (¬ f.isContinuation = true ∧ s.frames ≠ []) := by
    intro ⟨a, b⟩; exact h2 ⟨by simpa using a, b⟩
  rw [if_neg h1, if_neg h2'] at h
  exact raises_acceptData f s x s' h

theorem onFrame_control (f : Frame) (hc : f.isControl = true) : Raises StreamErr (onFrame f) := by
  unfold onFrame
  rw [if_pos hc]
  exact raises_bind (raises_buildMessage _) (fun m => raises_onMessage m)

theorem onOut_frame_err (f : Frame) (s : Sys) (x : Exn) (s' : Sys) :
    onOut (.frame f) s = .err x s' ↔ onFrame f s = .err x s' := by
  show (onFrame f >>= fun _ => notClosed) s = _ ↔ _
  cases h : onFrame f s with
  | ok a s1 => rw [bind_ok h]; constructor <;> intro e <;> cases e
  | err y s1 => rw [bind_err h]; constructor <;> intro e <;> cases e <;> rfl

theorem contLoop_nil_err (r : Res Bool) (x : Exn) (s' : Sys) (h : contLoop r [] = .err x s') : r = .err x s' := by
  unfold contLoop at h
  split at h
  · rw [feedLoop_nil] at h; cases h
  · cases h
  · exact h

/-- the header-level ProtocolError texts -/
def headerMsgs : List String :=
  ["reserved bits set", "opcode is reserved", "control frames may not be fragmented",
   "control frames must be <= 125 bytes in length", "server sent masked frame",
   "continuation frame has nothing to continue", "continuation frame expected"]

theorem parserMsg_mem (d : Bool) (b0 b1 : Nat) (msg : String) (h : parserMsg d b0 b1 = some msg) :
    msg ∈ headerMsgs := by
  unfold parserMsg at h
  repeat' split at h
  all_goals first
    | (cases h; done)
    | (cases h; simp [headerMsgs])

theorem strlit (s : String) : toString s = s := rfl

theorem streamErr_not_header (x : Exn) (h : StreamErr x) (msg : String) (hm : msg ∈ headerMsgs) :
    x ≠ .protocol msg := by
  intro e
  cases h with
  | outer y => cases e
  | critical m => cases e
  | other k => cases e
  | closePayload =>
    injection e with e
    subst e
    revert hm; decide
  | closeCode c =>
    injection e with e
    have e' := congrArg (fun s => s.toList.take 10) e
    simp only [headerMsgs, List.mem_cons, List.mem_nil_iff, or_false] at hm
    rcases hm with rfl | rfl | rfl | rfl | rfl | rfl | rfl <;>
      simp [String.toList_append, strlit] at e'

/-! ### header classes: model ⇔ spec -/

theorem hdrFrame_mask_false (b0 b1 : Nat) (key : Bytes)
    (h : (hdrFrameV b0 (if decide (b1 ≥ 128) = true then some key else none)).mask = false) : b1 < 128 := by
  by_cases hb : b1 ≥ 128
  · simp [hdrFrameV, hb] at h
  · omega

theorem hdrFrame_mask_true (b0 b1 : Nat) (key : Bytes)
    (h : (hdrFrameV b0 (if decide (b1 ≥ 128) = true then some key else none)).mask = true) : b1 ≥ 128 := by
  by_cases hb : b1 ≥ 128
  · exact hb
  · simp [hdrFrameV, hb] at h

/-- a frame whose two-byte header is a violation (parser- or stream-level) ends the feed with an
    exception raised before anything of it is delivered; the state is untouched except for the
    parser, and what follows the frame (`rest`) is never looked at -/
theorem header_violation (s : Sys) (hv : s.cfg.v.ctrlLen = true) (hs : AwaitHeader s.p) (b0 b1 : Nat)
    (hb1 : b1 < 256) (ext key payload rest : Bytes) (hw : WireBody b1 ext key payload)
    (hviol : parserViol s.p.compression b0 b1 ∨ fragViol (decide (s.frames ≠ [])) b0) :
    ∃ x p'', feedLoop ([b0, b1] ++ (ext ++ (key ++ (payload ++ rest)))) s = .err x { s with p := p'' } ∧
      ((x = .parse "invalid utf8" ∧ Utf8.validate s.p.dfa payload = none) ∨
       ∃ msg ∈ headerMsgs, x = .protocol msg) := by
  have h := parse_frame s hv hs b0 b1 ext key payload rest hw
  cases hpm : parserMsg s.p.compression b0 b1 with
  | some msg =>
    rw [hpm] at h
    obtain ⟨p'', e⟩ := h
    exact ⟨_, p'', e, Or.inr ⟨msg, parserMsg_mem _ _ _ _ hpm, rfl⟩⟩
  | none =>
    rw [hpm] at h
    rcases h with ⟨p'', e, hval⟩ | ⟨hm, p'', e⟩ | ⟨hm, p', ha, hcomp, e⟩
    · exact ⟨_, p'', e, Or.inl ⟨rfl, hval⟩⟩
    · exact ⟨_, p'', e, Or.inr ⟨_, by simp [headerMsgs], rfl⟩⟩
    · have hlt := hdrFrame_mask_false _ _ _ hm
      have hnp : ¬ parserViol s.p.compression b0 b1 := by
        rw [parserViol_iff, hpm]; simp; omega
      have hf : fragViol (decide (s.frames ≠ [])) b0 := hviol.resolve_left hnp
      generalize hfr : ({ hdrFrameV b0 (if decide (b1 ≥ 128) = true then some key else none) with
                            payload := payload } : Frame) = f at e
      have hop : f.opcode = b0 % 16 := by rw [← hfr]; rfl
      have hnc : f.isControl = false := by
        unfold fragViol at hf; simp [Frame.isControl, hop]; omega
      have hon : onFrame f { s with p := p' } = onDataFrame f { s with p := p' } := by
        unfold onFrame; simp [hnc]
      rcases hf with ⟨h0, hmid⟩ | ⟨h12, hmid⟩
      · have hcont : f.isContinuation = true := by simp [Frame.isContinuation, hop, h0, Gen.opContinuation]
        have hfr0 : s.frames = [] := by simpa using hmid
        have e1 := onDataFrame_nothing f { s with p := p' } hcont hfr0
        rw [← hon, ← onOut_frame_err] at e1
        rw [e1] at e
        exact ⟨_, p', e, Or.inr ⟨_, by simp [headerMsgs], rfl⟩⟩
      · have hcont : f.isContinuation = false := by
          simp [Frame.isContinuation, hop, Gen.opContinuation]; omega
        have hfr0 : s.frames ≠ [] := by simpa using hmid
        have e1 := onDataFrame_expected f { s with p := p' } hcont hfr0
        rw [← hon, ← onOut_frame_err] at e1
        rw [e1] at e
        exact ⟨_, p', e, Or.inr ⟨_, by simp [headerMsgs], rfl⟩⟩

/-- a frame whose header is legal is never answered with one of the header-level errors -/
theorem header_legal (s : Sys) (hv : s.cfg.v.ctrlLen = true) (hs : AwaitHeader s.p) (b0 b1 : Nat)
    (hb1 : b1 < 256) (ext key payload : Bytes) (hw : WireBody b1 ext key payload)
    (hok : ¬ (parserViol s.p.compression b0 b1 ∨ fragViol (decide (s.frames ≠ [])) b0))
    (msg : String) (hmsg : msg ∈ headerMsgs) (s' : Sys) :
    feedLoop ([b0, b1] ++ (ext ++ (key ++ payload))) s ≠ .err (.protocol msg) s' := by
  intro hcontra
  have h := parse_frame s hv hs b0 b1 ext key payload [] hw
  rw [List.append_nil] at h
  have hnp : ¬ parserViol s.p.compression b0 b1 := fun h => hok (Or.inl h)
  have hnf : ¬ fragViol (decide (s.frames ≠ [])) b0 := fun h => hok (Or.inr h)
  rw [parserViol_iff] at hnp
  cases hpm : parserMsg s.p.compression b0 b1 with
  | some m => exact hnp (Or.inl (by rw [hpm]; simp))
  | none =>
    rw [hpm] at h
    rcases h with ⟨p'', e, hval⟩ | ⟨hm, p'', e⟩ | ⟨hm, p', ha, hcomp, e⟩
    · rw [e] at hcontra; cases hcontra
    · have := hdrFrame_mask_true _ _ _ hm
      exact hnp (Or.inr (by omega))
    · rw [e] at hcontra
      have e1 := contLoop_nil_err _ _ _ hcontra
      rw [onOut_frame_err] at e1
      generalize hfr : ({ hdrFrameV b0 (if decide (b1 ≥ 128) = true then some key else none) with
                            payload := payload } : Frame) = f at e1
      have hop : f.opcode = b0 % 16 := by rw [← hfr]; rfl
      have hse : StreamErr (.protocol msg) := by
        by_cases hc : f.isControl = true
        · exact onFrame_control f hc _ _ _ e1
        · have hon : onFrame f { s with p := p' } = onDataFrame f { s with p := p' } := by
            unfold onFrame; simp [hc]
          rw [hon] at e1
          refine onDataFrame_accept f _ ?_ ?_ _ _ e1
          · intro ⟨a, b⟩
            apply hnf; left
            simp [Frame.isContinuation, hop, Gen.opContinuation] at a
            exact ⟨a, by simpa using b⟩
          · intro ⟨a, b⟩
            apply hnf; right
            simp [Frame.isContinuation, hop, Gen.opContinuation] at a
            simp [Frame.isControl, hop] at hc
            have hb' : s.frames ≠ [] := b
            refine ⟨?_, by simpa using hb'⟩
            -- opcodes 3-7 are reserved: rejected by the parser, so only 1 and 2 are left
            have hres : ¬ ((3 ≤ b0 % 16 ∧ b0 % 16 ≤ 7) ∨ (11 ≤ b0 % 16 ∧ b0 % 16 ≤ 15)) := by
              intro hr
              unfold parserMsg at hpm
              rw [if_pos hr] at hpm
              split at hpm <;> cases hpm
            omega
      exact streamErr_not_header _ hse msg hmsg rfl

/-! ### Close frames: payload and status code -/

theorem wf_WF (bs : Bytes) (h : Utf8.wf bs = true) : Bytes.WF bs := by
  fun_induction Utf8.wf bs <;> simp_all [Bytes.WF, Utf8.isTail] <;> omega

theorem closeFromPayload_one (pl : Bytes) (h : pl.length = 1) :
    closeFromPayload pl = .error (.protocol "invalid close frame payload") := by
  unfold closeFromPayload; rw [if_pos h]

theorem closeFromPayload_nil : closeFromPayload [] = .ok (.close none []) := by
  unfold closeFromPayload; simp

theorem closeFromPayload_bad (c0 c1 : Nat) (rb : Bytes) (h : Utf8.wf rb = false) :
    closeFromPayload (c0 :: c1 :: rb) = .error (.critical "close frame contains invalid utf-8") ∨
    closeFromPayload (c0 :: c1 :: rb) = .error (.critical "invalid utf-8 in close reason") := by
  have hd : Utf8.decode rb = none := by
    have := Utf8.decode_isSome rb
    rw [h] at this
    cases hdd : Utf8.decode rb with
    | none => rfl
    | some c => rw [hdd] at this; cases this
  unfold closeFromPayload
  simp only [List.length_cons, List.drop_succ_cons, List.drop_zero]
  rw [if_neg (by omega), if_pos (by omega)]
  cases Utf8.validate 0 rb with
  | none => exact Or.inl rfl
  | some d => right; simp only [hd]

theorem closeFromPayload_good (c0 c1 : Nat) (rb : Bytes) (h : Utf8.wf rb = true) :
    ∃ cps, closeFromPayload (c0 :: c1 :: rb) = .ok (.close (some (c0 * 256 + c1)) cps) ∧
      Utf8.decode rb = some cps ∧ Utf8.encode cps = rb ∧ ∀ c ∈ cps, Utf8.isScalar c = true := by
  have hwf := wf_WF rb h
  have hs : Utf8.srun 0 rb = 0 := (Utf8.srun_zero_iff_wf rb).mpr h
  have hv : Utf8.validate 0 rb = some 0 := by
    rw [Utf8.validate_eq_run 0 rb (by decide) (by decide) hwf, hs]; rfl
  have hd : (Utf8.decode rb).isSome = true := by rw [Utf8.decode_isSome, h]
  cases hdd : Utf8.decode rb with
  | none => rw [hdd] at hd; cases hd
  | some cps =>
    obtain ⟨e1, e2⟩ := Utf8.encode_decode rb cps hdd
    refine ⟨cps, ?_, rfl, e1, e2⟩
    unfold closeFromPayload
    simp only [List.length_cons, List.drop_succ_cons, List.drop_zero, List.take_succ_cons, List.take_zero]
    rw [if_neg (by omega), if_pos (by omega)]
    simp only [hv, hdd]
    simp [beVal]

theorem isInvalidCode_iff (c : Nat) : isInvalidCode c = true ↔ Spec.reservedCloseCode c := by
  unfold isInvalidCode Spec.reservedCloseCode Gen.invalidCodeRanges
  simp only [List.any_cons, List.any_nil, Bool.or_false, Bool.or_eq_true, Bool.and_eq_true, decide_eq_true_eq]
  omega

/-- `_on_close` with a reserved code: ProtocolError before any event is yielded or state touched -/
theorem onClose_reserved (c : Nat) (r : List Nat) (s : Sys) (h : Spec.reservedCloseCode c) :
    onClose (some c) r s = .err (.protocol s!"reserved close code ({c})") s := by
  unfold onClose
  have : checkCloseCode (some c) s = .err (.protocol s!"reserved close code ({c})") s := by
    unfold checkCloseCode
    simp only [(isInvalidCode_iff c).mpr h, if_true]
    rfl
  rw [bind_err this]

/-- a code that is not reserved passes the test: `_on_close` goes on to the state switch -/
theorem onClose_allowed (c : Option Nat) (r : List Nat) (s : Sys) (h : ∀ n, c = some n → ¬ Spec.reservedCloseCode n) :
    checkCloseCode c s = .ok () s := by
  unfold checkCloseCode
  cases c with
  | none => rfl
  | some n =>
    have : ¬ isInvalidCode n = true := fun hi => h n rfl ((isInvalidCode_iff n).mp hi)
    simp only [this, if_false]
    rfl

/-! ### which observations each layer can add to the trace -/

/-- the trace grew, and only by observations satisfying `P` -/
def Ext (P : Obs → Prop) (s s' : Sys) : Prop := ∃ l, s'.trace = l ++ s.trace ∧ ∀ o ∈ l, P o

theorem ext_po (P : Obs → Prop) : PO (Ext P) where
  refl s := ⟨[], rfl, by simp⟩
  trans := by
    intro a b c ⟨l1, e1, h1⟩ ⟨l2, e2, h2⟩
    refine ⟨l2 ++ l1, by rw [e2, e1, List.append_assoc], ?_⟩
    intro o ho
    rcases List.mem_append.mp ho with h | h
    · exact h2 o h
    · exact h1 o h

theorem Ext.mono {P Q : Obs → Prop} (hi : ∀ o, P o → Q o) {s s' : Sys} (h : Ext P s s') : Ext Q s s' := by
  obtain ⟨l, e, hl⟩ := h
  exact ⟨l, e, fun o ho => hi o (hl o ho)⟩

theorem ext_same {P : Obs → Prop} {s s' : Sys} (h : s'.trace = s.trace) : Ext P s s' := ⟨[], h, by simp⟩
theorem ext_one {P : Obs → Prop} {s s' : Sys} {o : Obs} (hp : P o) (h : s'.trace = o :: s.trace) : Ext P s s' :=
  ⟨[o], h, by simp [hp]⟩

def Obs.isEvV : Obs → Bool
  | .ev _ => true
  | _ => false

/-- `P` admits everything the library and the application do at a `yield` other than yielding
    message events: writes, results of calls, closing the socket, and the two timer events -/
structure Timers (P : Obs → Prop) : Prop where
  nonEv : ∀ o, o.isEvV = false → P o
  poll : P (.ev .poll)
  unresponsive : P (.ev .unresponsive)

macro "ext_leaf" : tactic =>
  `(tactic| ((try simp only [Res.state_ok, Res.state_err])
             first
              | exact ext_same rfl
              | exact ext_one (Timers.nonEv ‹_› _ rfl) rfl
              | exact ext_one ‹_› rfl))

section Reaction
variable {P : Obs → Prop} (hP : Timers P)
include hP

theorem ext_closeSocket : Spec (Ext P) closeSocket := by
  intro s; unfold closeSocket; splits <;> ext_leaf

theorem ext_write (d : Bytes) (z : Option (Nat × Bytes)) : Spec (Ext P) (write d z) := by
  intro s; unfold write; splits <;> ext_leaf

theorem ext_sendFrame (op : Nat) (pl : Bytes) (c : Option Bytes) : Spec (Ext P) (sendFrame op pl c) := by
  intro s; unfold sendFrame
  simp only
  splits
  all_goals first
    | ext_leaf
    | exact (ext_po P).trans (by ext_leaf) (ext_write hP _ _ _)

theorem ext_wsClose (c : Option Nat) (r : Arg) : Spec (Ext P) (wsClose c r) := by
  intro s; unfold wsClose
  splits
  all_goals first
    | ext_leaf
    | (rename_i h; have := (ext_sendFrame hP _ _ _).ok h; exact (ext_po P).trans this (by ext_leaf))
    | (rename_i h; have := (ext_sendFrame hP _ _ _).err h; exact this)

theorem ext_sendData (op : Nat) (pl : Bytes) (c : Bool) : Spec (Ext P) (sendData op pl c) := by
  intro s; unfold sendData; split <;> exact ext_sendFrame hP _ _ _ s

theorem ext_log (o : Obs) (ho : o.isEvV = false) : Spec (Ext P) (log o) := by
  intro s; unfold log modS; exact ext_one (hP.nonEv _ ho) rfl

theorem ext_logRes {m : M ActRes} (h : Spec (Ext P) m) : Spec (Ext P) (logRes m) := by
  unfold logRes
  exact spec_bind (ext_po P) h (fun r => ext_log hP _ rfl)

theorem ext_doAct (a : Act) : Spec (Ext P) (doAct a) := by
  unfold doAct
  split
  all_goals first
    | (apply ext_logRes hP
       first
        | exact ext_sendData hP _ _ _
        | exact ext_sendFrame hP _ _ _
        | exact ext_wsClose hP _ _
        | exact spec_pure (ext_po P) _
        | (split <;> first | exact spec_pure (ext_po P) _ | exact ext_sendData hP _ _ _ | exact ext_sendFrame hP _ _ _)
        | exact spec_bind (ext_po P) (ext_closeSocket hP) (fun _ => spec_pure (ext_po P) _))
    | (intro s; ext_leaf)

theorem ext_doActs (as : List Act) : Spec (Ext P) (doActs as) := by
  induction as with
  | nil => exact spec_pure (ext_po P) ()
  | cons a r ih => unfold doActs; exact spec_bind (ext_po P) (ext_doAct hP a) (fun _ => ih)

theorem ext_yieldEv (e : Event) (he : P (.ev e)) : Spec (Ext P) (yieldEv e) := by
  unfold yieldEv
  apply spec_bind (ext_po P)
  · apply spec_modS; intro s; exact ext_one he rfl
  · intro _; apply spec_bind (ext_po P) (spec_getS (ext_po P)); intro s; exact ext_doActs hP _

theorem ext_checkPoll : Spec (Ext P) checkPoll := by
  unfold checkPoll
  refine spec_getS_bind (ext_po P) (fun s => ?_)
  simp only []
  splits
  all_goals first
    | exact spec_pure (ext_po P) _
    | (refine spec_bind (ext_po P) (spec_modS ?_) (fun _ => ext_yieldEv hP _ hP.poll); intro s; ext_leaf)

theorem ext_checkAutoPing : Spec (Ext P) checkAutoPing := by
  unfold checkAutoPing
  refine spec_getS_bind (ext_po P) (fun s => ?_)
  simp only []
  split
  · refine spec_bind (ext_po P) (spec_modS ?_) (fun _ => spec_bind (ext_po P) (ext_sendFrame hP _ _ _)
      (fun _ => spec_pure (ext_po P) _))
    intro s; ext_leaf
  · exact spec_pure (ext_po P) _

theorem ext_checkPingTimeout : Spec (Ext P) checkPingTimeout := by
  unfold checkPingTimeout
  refine spec_getS_bind (ext_po P) (fun s => ?_)
  simp only []
  split
  · exact spec_bind (ext_po P) (ext_yieldEv hP _ hP.unresponsive) (fun _ => spec_throwE (ext_po P) _)
  · exact spec_pure (ext_po P) _

theorem ext_checkCloseTimeout : Spec (Ext P) checkCloseTimeout := by
  unfold checkCloseTimeout
  refine spec_getS_bind (ext_po P) (fun s => ?_)
  simp only []
  splits
  all_goals first | exact spec_pure (ext_po P) _ | exact spec_throwE (ext_po P) _

theorem ext_regular : Spec (Ext P) regular := by
  unfold regular
  apply spec_bind (ext_po P) (spec_getS (ext_po P)); intro s
  split
  · exact spec_bind (ext_po P) (ext_checkPoll hP) (fun _ => spec_bind (ext_po P) (ext_checkAutoPing hP)
      (fun _ => spec_bind (ext_po P) (ext_checkPingTimeout hP) (fun _ => ext_checkCloseTimeout hP)))
  · exact spec_pure (ext_po P) _

theorem ext_onEvent (e : Event) : Spec (Ext P) (onEvent e) := by
  intro s; unfold onEvent
  splits
  all_goals first
    | ext_leaf
    | (rename_i h; exact (ext_sendFrame hP _ _ _).ok h)
    | (rename_i h; exact (ext_sendFrame hP _ _ _).err h)

theorem ext_onDisconnect : Spec (Ext P) onDisconnect := by
  unfold onDisconnect
  apply spec_bind (ext_po P) (ext_closeSocket hP)
  intro _; apply spec_modS; intro s; ext_leaf

theorem ext_feedYield (b : Bool) (e : Event) (he : P (.ev e)) : Spec (Ext P) (feedYield b e) := by
  unfold feedYield
  apply spec_tryC (ext_po P)
  · exact spec_bind (ext_po P) (ext_onEvent hP e) (fun _ => spec_bind (ext_po P) (ext_yieldEv hP e he)
      (fun _ => ext_regular hP))
  · intro x
    apply spec_bind (ext_po P)
    · split
      · exact ext_onDisconnect hP
      · exact spec_pure (ext_po P) _
    · intro _; exact spec_throwE (ext_po P) _

end Reaction

/-- not a ProtocolError event -/
def NotPE (o : Obs) : Prop := ∀ m c, o ≠ .ev (.protocolError m c)

/-- what may follow a ProtocolError event: writes, results of application calls, socket/selector
    release, clock ticks, the timer events and a non-graceful Disconnected — no message, no
    handshake event, no second ProtocolError, no graceful Disconnected -/
def CalmV : Obs → Prop
  | .ev .poll => True
  | .ev .unresponsive => True
  | .ev (.disconnected _ false) => True
  | .ev _ => False
  | _ => True

theorem timers_notPE : Timers NotPE where
  nonEv := by intro o ho m c h; subst h; cases ho
  poll := by intro m c h; cases h
  unresponsive := by intro m c h; cases h

theorem timers_calm : Timers CalmV where
  nonEv := by intro o ho; cases o <;> first | trivial | cases ho
  poll := trivial
  unresponsive := trivial

theorem CalmV.notPE {o : Obs} (h : CalmV o) : NotPE o := by
  intro m c e; subst e; exact h

/-! the layers below `WebSocket.feed`'s `except` clauses never yield a ProtocolError event -/

macro "npe" : tactic => `(tactic| (intro m c h; cases h))

theorem quiet_inflateMessage (j : Bytes) : Spec (Ext NotPE) (inflateMessage j) := by
  intro s; unfold inflateMessage; simp only []; splits <;> exact ext_same rfl

theorem quiet_buildMessage (fs : List Frame) : Spec (Ext NotPE) (buildMessage fs) := by
  unfold buildMessage
  split
  · exact spec_throwE (ext_po _) _
  · simp only []
    refine spec_getS_bind (ext_po _) (fun s => ?_)
    refine spec_bind (ext_po _) ?_ (fun _ => spec_liftE (ext_po _) _)
    split
    · exact quiet_inflateMessage _
    · exact spec_pure (ext_po _) _

theorem quiet_checkCloseCode (c : Option Nat) : Spec (Ext NotPE) (checkCloseCode c) := by
  unfold checkCloseCode
  splits <;> first | exact spec_pure (ext_po _) _ | exact spec_throwE (ext_po _) _

theorem quiet_raiseIfArgError (r : ActRes) : Spec (Ext NotPE) (raiseIfArgError r) := by
  unfold raiseIfArgError
  split <;> first | exact spec_pure (ext_po _) _ | exact spec_throwE (ext_po _) _

theorem quiet_onClose (c : Option Nat) (r : List Nat) : Spec (Ext NotPE) (onClose c r) := by
  unfold onClose
  refine spec_bind (ext_po _) (quiet_checkCloseCode c) (fun _ => ?_)
  refine spec_getS_bind (ext_po _) (fun s => ?_)
  split
  · exact spec_pure (ext_po _) _
  · split
    · refine spec_bind (ext_po _) (ext_feedYield timers_notPE _ _ (by npe)) (fun _ => spec_modS ?_)
      intro s; exact ext_same rfl
    · refine spec_bind (ext_po _) (ext_feedYield timers_notPE _ _ (by npe)) (fun _ =>
        spec_bind (ext_po _) (ext_wsClose timers_notPE _ _) (fun r =>
        spec_bind (ext_po _) (quiet_raiseIfArgError r) (fun _ => spec_modS ?_)))
      intro s; exact ext_same rfl

theorem quiet_onMessage (m : Msg) : Spec (Ext NotPE) (onMessage m) := by
  unfold onMessage
  split <;> first
    | exact quiet_onClose _ _
    | exact ext_feedYield timers_notPE _ _ (by npe)
    | exact spec_pure (ext_po _) _

theorem quiet_onDataFrame (f : Frame) : Spec (Ext NotPE) (onDataFrame f) := by
  unfold onDataFrame
  refine spec_getS_bind (ext_po _) (fun s => ?_)
  split
  · exact spec_throwE (ext_po _) _
  · split
    · exact spec_throwE (ext_po _) _
    · refine spec_bind (ext_po _) (spec_modS ?_) (fun _ => ?_)
      · intro s; exact ext_same rfl
      · split
        · refine spec_getS_bind (ext_po _) (fun s => spec_bind (ext_po _) (quiet_buildMessage _) (fun m =>
            spec_bind (ext_po _) (quiet_onMessage m) (fun _ => spec_modS ?_)))
          intro s; exact ext_same rfl
        · exact spec_pure (ext_po _) _

theorem quiet_notClosed : Spec (Ext NotPE) notClosed := by
  intro s; unfold notClosed; exact ext_same rfl

theorem quiet_onFrame (f : Frame) : Spec (Ext NotPE) (onFrame f) := by
  unfold onFrame
  split
  · exact spec_bind (ext_po _) (quiet_buildMessage _) (fun m => quiet_onMessage m)
  · exact quiet_onDataFrame _

theorem quiet_onOut (o : Out) : Spec (Ext NotPE) (onOut o) := by
  unfold onOut
  split
  · refine spec_getS_bind (ext_po _) (fun s => ?_)
    split
    · refine spec_bind (ext_po _) (spec_modS ?_) (fun _ => spec_bind (ext_po _) (ext_onDisconnect timers_notPE)
        (fun _ => spec_bind (ext_po _) (ext_feedYield timers_notPE _ _ (by npe)) (fun _ => spec_pure (ext_po _) _)))
      intro s; exact ext_same rfl
    · refine spec_bind (ext_po _) (spec_modS ?_) (fun _ => spec_bind (ext_po _)
        (ext_feedYield timers_notPE _ _ (by npe)) (fun _ =>
        spec_bind (ext_po _) (spec_modS ?_) (fun _ => quiet_notClosed)))
      · intro s; exact ext_same rfl
      · intro s; exact ext_same rfl
  · exact spec_bind (ext_po _) (quiet_onFrame _) (fun _ => quiet_notClosed)

theorem quiet_feedLoop (data : Bytes) : Spec (Ext NotPE) (feedLoop data) := by
  induction h : data.length using Nat.strongRecOn generalizing data with
  | _ n ih =>
    intro s
    rw [feedLoop]
    by_cases hd : data = []
    · simp only [hd, dite_true]; exact ext_same rfl
    · simp only [hd, dite_false]
      have hlt : (data.drop (s.p.remPred + 1)).length < n := by
        have : data.length ≠ 0 := fun hl => hd (List.eq_nil_of_length_eq_zero hl)
        simp only [List.length_drop]; omega
      cases hb : biteBytes s.cfg.v s.p (data.take (s.p.remPred + 1)) with
      | error x => simp only [Res.state_err]; exact ext_same rfl
      | ok r =>
        obtain ⟨p', out⟩ := r
        have hs1 : Ext NotPE s { s with p := p' } := ext_same rfl
        cases out with
        | none =>
          simp only
          exact (ext_po _).trans hs1 (ih _ hlt _ rfl _)
        | some o =>
          simp only
          have ho := quiet_onOut o { s with p := p' }
          cases hr : onOut o { s with p := p' } with
          | err x s2 => rw [hr] at ho; simp only [Res.state_err] at ho ⊢; exact (ext_po _).trans hs1 ho
          | ok go s2 =>
            rw [hr] at ho; simp only [Res.state_ok] at ho
            cases go with
            | true => simp only; exact (ext_po _).trans hs1 ((ext_po _).trans ho (ih _ hlt _ rfl _))
            | false => simp only [Res.state_ok]; exact (ext_po _).trans hs1 ho

theorem quiet_afterHeader (rest : Bytes) (out : Option Out) : Spec (Ext NotPE) (afterHeader rest out) := by
  unfold afterHeader
  split
  · refine spec_bind (ext_po _) (quiet_onOut _) (fun go => ?_)
    split
    · exact spec_bind (ext_po _) (quiet_feedLoop _) (fun _ => spec_pure (ext_po _) _)
    · exact spec_pure (ext_po _) _
  · exact spec_bind (ext_po _) (quiet_feedLoop _) (fun _ => spec_pure (ext_po _) _)

theorem quiet_feedHeader (data : Bytes) : Spec (Ext NotPE) (feedHeader data) := by
  intro s; unfold feedHeader; simp only []
  split
  · split
    · exact ext_same rfl
    · exact ext_same rfl
  · split
    · exact ext_same rfl
    · split
      · exact ext_same rfl
      · rename_i p' out hr
        have h1 : Ext NotPE s { s with p := p' } := ext_same rfl
        exact (ext_po _).trans h1 (quiet_afterHeader _ _ _)

/-- everything below the `except` clauses of `WebSocket.feed` is silent about protocol errors -/
theorem quiet_feedBody (data : Bytes) : Spec (Ext NotPE) (feedBody data) := by
  intro s; unfold feedBody
  split
  · exact quiet_feedHeader data s
  · have := quiet_feedLoop data s
    split <;> (rename_i h; rw [h] at this; simpa using this)

/-! ### the `except` clauses of `WebSocket.feed` -/

/-- the exceptions `WebSocket.feed` turns into a ProtocolError event: message and `critical` flag
    (`ParseError` from the parser is re-raised by the stream as `CriticalProtocolError`) -/
def violationOf : Exn → Option (String × Bool)
  | .parse m => some (m, true)
  | .critical m => some (m, true)
  | .protocol m => some (m, false)
  | _ => none

/-- what runs at a `yield` of `feed` after the event is recorded: the application's reaction,
    then the timers (`_regular()`) -/
def reactAndTimers : M Unit := do
  let s ← getS
  doActs (s.react s.hist)
  regular

/-- the state in which the application sees event `e` -/
def pushEv (e : Event) (s : Sys) : Sys := { s with trace := .ev e :: s.trace, hist := e :: s.hist }

theorem calm_reactAndTimers : Spec (Ext CalmV) reactAndTimers := by
  unfold reactAndTimers
  exact spec_getS_bind (ext_po _) (fun s => spec_bind (ext_po _) (ext_doActs timers_calm _)
    (fun _ => ext_regular timers_calm))

/-- the `yield ProtocolError(...)` in the `except` clauses (outside the `try` body): the event
    goes out once; whatever the application or the timers raise is an exception of `run()` -/
theorem feedYield_pe (msg : String) (crit : Bool) (s : Sys) :
    feedYield false (.protocolError msg crit) s =
      match reactAndTimers (pushEv (.protocolError msg crit) s) with
      | .ok a s2 => .ok a s2
      | .err x s2 => .err (.outer x) s2 := by
  unfold feedYield tryC
  have e1 : (do onEvent (.protocolError msg crit); yieldEv (.protocolError msg crit); regular : M Unit) s
      = reactAndTimers (pushEv (.protocolError msg crit) s) := rfl
  rw [e1]
  cases reactAndTimers (pushEv (.protocolError msg crit) s) with
  | ok a s2 => rfl
  | err x s2 => rfl

theorem feedYield_pe_trace (msg : String) (crit : Bool) (s : Sys) :
    ∃ l, (feedYield false (.protocolError msg crit) s).state.trace
        = l ++ .ev (.protocolError msg crit) :: s.trace ∧ ∀ o ∈ l, CalmV o := by
  rw [feedYield_pe]
  obtain ⟨l, e, hl⟩ := calm_reactAndTimers (pushEv (.protocolError msg crit) s)
  refine ⟨l, ?_, hl⟩
  cases h : reactAndTimers (pushEv (.protocolError msg crit) s) with
  | ok a s2 => rw [h] at e; exact e
  | err x s2 => rw [h] at e; exact e

theorem sendFrame_traceV (op : Nat) (pl : Bytes) (s : Sys) :
    ∃ res s', sendFrame op pl none s = .ok res s' ∧
      (s'.trace = s.trace ∨
       ∃ bytes, Frame.build op pl (s.cfg.maskKey s.keyCtr) = some bytes ∧
         (s'.trace = .wr bytes :: s.trace ∨ s'.trace = .wrFail bytes :: s.trace)) := by
  unfold sendFrame
  simp only []
  cases hb : Frame.build op pl (s.cfg.maskKey s.keyCtr) with
  | none => exact ⟨_, _, rfl, Or.inl rfl⟩
  | some bytes =>
    simp only []
    unfold write
    simp only []
    splits
    all_goals first
      | exact ⟨_, _, rfl, Or.inl rfl⟩
      | exact ⟨_, _, rfl, Or.inr ⟨bytes, rfl, Or.inl rfl⟩⟩
      | exact ⟨_, _, rfl, Or.inr ⟨bytes, rfl, Or.inr rfl⟩⟩

/-- `close(code, reason)` by the library writes at most one frame, and it is the Close frame
    `Frame.build` makes from the code and the reason -/
theorem wsClose_traceV (c : Nat) (r : List Nat) (s : Sys) :
    ∃ res s', wsClose (some c) (.str r) s = .ok res s' ∧
      (s'.trace = s.trace ∨
       ∃ key bytes, Frame.build Gen.opClose (buildClosePayload (some c) (encodeReplace r)) key = some bytes ∧
         (s'.trace = .wr bytes :: s.trace ∨ s'.trace = .wrFail bytes :: s.trace)) := by
  unfold wsClose
  simp only []
  split
  · exact ⟨_, _, rfl, Or.inl rfl⟩
  · split
    · exact ⟨_, _, rfl, Or.inl rfl⟩
    · split
      · exact ⟨_, _, rfl, Or.inl rfl⟩
      · split
        · exact ⟨_, _, rfl, Or.inl rfl⟩
        · obtain ⟨res, s', e, ht⟩ := sendFrame_traceV Gen.opClose (buildClosePayload (some c) (encodeReplace r)) s
          rw [e]
          refine ⟨_, _, rfl, ?_⟩
          rcases ht with h | ⟨bytes, hb, h⟩
          · exact Or.inl h
          · exact Or.inr ⟨_, bytes, hb, h⟩

/-- the frame(s) the library writes itself after the ProtocolError event: none, or — for a
    non-critical error only — one Close frame carrying 1002 and the error text -/
def CloseWrite (msg : String) (crit : Bool) (cw : List Obs) : Prop :=
  cw = [] ∨
  (crit = false ∧ ∃ key bytes,
    Frame.build Gen.opClose
      (buildClosePayload (some Gen.statusProtocolError) (encodeReplace (Http.ofString msg))) key = some bytes ∧
    (cw = [.wr bytes] ∨ cw = [.wrFail bytes]))

/-- **the `except` clauses.**  Entered with one of the three violation exceptions, the handler
    yields exactly one ProtocolError event (with the exception's text), lets the application and
    the timers react, then — for a non-critical error — calls `close(1002, text)` once, and always
    ends by raising: `_ForceDisconnect`, or what the application/timers raised at the yield, or
    the ValueError of an over-long Close reason. -/
theorem feedHandler_spec (x : Exn) (msg : String) (crit : Bool) (hx : violationOf x = some (msg, crit))
    (s1 : Sys) :
    ∃ y s2 l cw,
      feedHandler x s1 = .err y s2 ∧
      s2.trace = cw ++ l ++ .ev (.protocolError msg crit) :: s1.trace ∧
      (∀ o ∈ l, CalmV o) ∧ CloseWrite msg crit cw ∧
      (y = .forceDisconnect "forced" ∨ y = .other "error" ∨
       (cw = [] ∧ ∃ z, y = .outer z ∧ feedYield false (.protocolError msg crit) s1 = .err y s2)) := by
  obtain ⟨l, hl, hcalm⟩ := feedYield_pe_trace msg crit s1
  have houter := raises_feedYield false (.protocolError msg crit)
  cases hfy : feedYield false (.protocolError msg crit) s1 with
  | err y s2 =>
    rw [hfy] at hl
    obtain ⟨z, hz⟩ := houter _ _ _ hfy
    refine ⟨y, s2, l, [], ?_, by simpa using hl, hcalm, Or.inl rfl, Or.inr (Or.inr ⟨rfl, z, hz, rfl⟩)⟩
    cases x with
    | parse m => cases hx; unfold feedHandler; exact bind_err hfy
    | critical m => cases hx; unfold feedHandler; exact bind_err hfy
    | protocol m => cases hx; unfold feedHandler; exact bind_err hfy
    | _ => cases hx
  | ok u s2 =>
    rw [hfy] at hl
    simp only [Res.state_ok] at hl
    cases x with
    | parse m =>
      cases hx
      refine ⟨_, s2, l, [], ?_, by simpa using hl, hcalm, Or.inl rfl, Or.inl rfl⟩
      unfold feedHandler; simp only []; rw [bind_ok hfy]; rfl
    | critical m =>
      cases hx
      refine ⟨_, s2, l, [], ?_, by simpa using hl, hcalm, Or.inl rfl, Or.inl rfl⟩
      unfold feedHandler; simp only []; rw [bind_ok hfy]; rfl
    | protocol m =>
      cases hx
      obtain ⟨res, s3, hw, ht⟩ := wsClose_traceV Gen.statusProtocolError (Http.ofString msg) s2
      have hcw : ∃ cw, s3.trace = cw ++ s2.trace ∧ CloseWrite msg false cw := by
        rcases ht with h | ⟨key, bytes, hb, h | h⟩
        · exact ⟨[], h, Or.inl rfl⟩
        · exact ⟨[.wr bytes], h, Or.inr ⟨rfl, key, bytes, hb, Or.inl rfl⟩⟩
        · exact ⟨[.wrFail bytes], h, Or.inr ⟨rfl, key, bytes, hb, Or.inr rfl⟩⟩
      obtain ⟨cw, hcw1, hcw2⟩ := hcw
      have htr : s3.trace = cw ++ l ++ .ev (.protocolError msg false) :: s1.trace := by
        rw [hcw1, hl, List.append_assoc]
      by_cases ha : res = .valueError ∨ res = .structError ∨ res = .typeError
      · refine ⟨.other "error", s3, l, cw, ?_, htr, hcalm, hcw2, Or.inr (Or.inl rfl)⟩
        unfold feedHandler; simp only []
        rw [bind_ok hfy, bind_ok hw]
        unfold raiseIfArgError
        rw [if_pos ha]; rfl
      · refine ⟨.forceDisconnect "forced", s3, l, cw, ?_, htr, hcalm, hcw2, Or.inl rfl⟩
        unfold feedHandler; simp only []
        rw [bind_ok hfy, bind_ok hw]
        unfold raiseIfArgError
        rw [if_neg ha]; rfl
    | _ => cases hx

/-! ### `WebSocket.feed` and the session loop -/

theorem wsFeed_of_feedBody_err (data : Bytes) (s s1 : Sys) (x : Exn) (hc : s.closed = false)
    (hb : feedBody data s = .err x s1) :
    wsFeed data s = tryC (feedHandler x) unwrapOuter s1 := by
  unfold wsFeed
  simp only [hc, Bool.false_eq_true, if_false]
  unfold tryC
  rw [hb]

theorem wsFeed_of_feedBody_ok (data : Bytes) (s s1 : Sys) (hc : s.closed = false)
    (hb : feedBody data s = .ok () s1) : wsFeed data s = .ok () s1 := by
  unfold wsFeed
  simp only [hc, Bool.false_eq_true, if_false]
  unfold tryC
  rw [hb]

/-- **a violation is reported once and fails the feed.** -/
theorem wsFeed_violation (data : Bytes) (s s1 : Sys) (x : Exn) (msg : String) (crit : Bool)
    (hc : s.closed = false) (hb : feedBody data s = .err x s1) (hx : violationOf x = some (msg, crit)) :
    ∃ y s2 l cw,
      wsFeed data s = .err y s2 ∧
      s2.trace = cw ++ l ++ .ev (.protocolError msg crit) :: s1.trace ∧
      (∀ o ∈ l, CalmV o) ∧ CloseWrite msg crit cw ∧
      (y = .forceDisconnect "forced" ∨ y = .other "error" ∨
       (cw = [] ∧ feedYield false (.protocolError msg crit) s1 = .err (.outer y) s2)) := by
  obtain ⟨y0, s2, l, cw, e, htr, hcalm, hcw, hy⟩ := feedHandler_spec x msg crit hx s1
  rw [wsFeed_of_feedBody_err data s s1 x hc hb]
  rcases hy with rfl | rfl | ⟨hcw0, z, rfl, hfy⟩
  · exact ⟨_, s2, l, cw, by rw [tryC_err e]; rfl, htr, hcalm, hcw, Or.inl rfl⟩
  · exact ⟨_, s2, l, cw, by rw [tryC_err e]; rfl, htr, hcalm, hcw, Or.inr (Or.inl rfl)⟩
  · exact ⟨z, s2, l, cw, by rw [tryC_err e]; rfl, htr, hcalm, hcw, Or.inr (Or.inr ⟨hcw0, hfy⟩)⟩

/-- exactly one ProtocolError event was added; before it only non-ProtocolError observations,
    after it only `CalmV` ones -/
def OnePE (s s' : Sys) : Prop :=
  ∃ post m c pre, s'.trace = post ++ .ev (.protocolError m c) :: pre ++ s.trace ∧
    (∀ o ∈ post, CalmV o) ∧ (∀ o ∈ pre, NotPE o)

theorem OnePE.after {a b c : Sys} (h : OnePE a b) (h2 : Ext CalmV b c) : OnePE a c := by
  obtain ⟨post, m, cr, pre, e, hp, hq⟩ := h
  obtain ⟨l, e2, hl⟩ := h2
  refine ⟨l ++ post, m, cr, pre, by rw [e2, e]; simp, ?_, hq⟩
  intro o ho
  rcases List.mem_append.mp ho with h | h
  · exact hl o h
  · exact hp o h

theorem OnePE.before {a b c : Sys} (h1 : Ext NotPE a b) (h : OnePE b c) : OnePE a c := by
  obtain ⟨post, m, cr, pre, e, hp, hq⟩ := h
  obtain ⟨l, e1, hl⟩ := h1
  refine ⟨post, m, cr, pre ++ l, by rw [e, e1]; simp, hp, ?_⟩
  intro o ho
  rcases List.mem_append.mp ho with h | h
  · exact hq o h
  · exact hl o h

/-- a step is either silent about protocol errors or reports exactly one and is `CalmV` afterwards -/
def Quiet1 (s s' : Sys) : Prop := Ext NotPE s s' ∨ OnePE s s'

theorem Quiet1.after {a b c : Sys} (h : Quiet1 a b) (h2 : Ext CalmV b c) : Quiet1 a c := by
  rcases h with h | h
  · exact Or.inl ((ext_po _).trans h (h2.mono (fun o => CalmV.notPE)))
  · exact Or.inr (h.after h2)

theorem Quiet1.before {a b c : Sys} (h1 : Ext NotPE a b) (h : Quiet1 b c) : Quiet1 a c := by
  rcases h with h | h
  · exact Or.inl ((ext_po _).trans h1 h)
  · exact Or.inr (h.before h1)

/-- `WebSocket.feed`: normal return ⇒ no ProtocolError event; an exception ⇒ none or exactly one,
    and after that one only `CalmV` observations -/
theorem wsFeed_trace (data : Bytes) (s : Sys) :
    match wsFeed data s with
    | .ok _ s' => Ext NotPE s s'
    | .err _ s' => Quiet1 s s' := by
  by_cases hc : s.closed = true
  · unfold wsFeed; simp only [hc, if_true]; exact ext_same rfl
  · have hc' : s.closed = false := by simpa using hc
    have hq := quiet_feedBody data s
    cases hb : feedBody data s with
    | ok u s1 =>
      rw [hb] at hq
      rw [wsFeed_of_feedBody_ok data s s1 hc' hb]
      exact hq
    | err x s1 =>
      rw [hb] at hq
      simp only [Res.state_err] at hq
      cases hx : violationOf x with
      | some mc =>
        obtain ⟨msg, crit⟩ := mc
        obtain ⟨y, s2, l, cw, e, htr, hcalm, hcw, _⟩ := wsFeed_violation data s s1 x msg crit hc' hb hx
        rw [e]
        refine Or.inr (OnePE.before hq ⟨cw ++ l, msg, crit, [], by rw [htr]; simp, ?_, by simp⟩)
        intro o ho
        rcases List.mem_append.mp ho with h | h
        · rcases hcw with h0 | ⟨_, key, bytes, _, h1 | h1⟩
          · subst h0; cases h
          · subst h1; simp at h; subst h; trivial
          · subst h1; simp at h; subst h; trivial
        · exact hcalm o h
      | none =>
        rw [wsFeed_of_feedBody_err data s s1 x hc' hb]
        have : feedHandler x s1 = .err x s1 := by
          unfold feedHandler
          cases x <;> first | (cases hx; done) | rfl
        rw [tryC_err this]
        have : ∃ y, unwrapOuter x s1 = .err y s1 := by
          unfold unwrapOuter; cases x <;> exact ⟨_, rfl⟩
        obtain ⟨y, hy⟩ := this
        rw [hy]
        exact Or.inl hq

/-- result-indexed form: a normal return never carries a ProtocolError event -/
def ResQ (s : Sys) (r : Res α) : Prop :=
  match r with
  | .ok _ s' => Ext NotPE s s'
  | .err _ s' => Quiet1 s s'

theorem ResQ.quiet1 {s : Sys} {r : Res α} (h : ResQ s r) : Quiet1 s r.state := by
  cases r with
  | ok a s' => exact Or.inl h
  | err x s' => exact h

theorem onEof_same (s : Sys) : ResQ s (onEof s) := by
  unfold onEof; split
  · exact Or.inl (ext_same rfl)
  · exact ext_same rfl

theorem recvStep_trace (o : RecvOutcome) (s : Sys) : ResQ s (recvStep o s) := by
  unfold recvStep
  split
  · exact onEof_same s
  · split
    · exact Or.inl (ext_same rfl)
    · exact Or.inl (ext_same rfl)
    · exact onEof_same s
    · rename_i bs
      split
      · exact onEof_same s
      · have := wsFeed_trace bs s
        split <;> (rename_i h; rw [h] at this; exact this)

theorem tick_quiet (s : Sys) (dt : Nat) : Ext NotPE s (tick s dt) := by
  unfold tick
  by_cases h : dt ≠ 0
  · exact ext_one (o := .tick (s.now + dt)) (timers_notPE.nonEv _ rfl) (if_pos h)
  · exact ext_same (if_neg h)

/-- the session loop: a normal end never carries a ProtocolError event; an exceptional end carries
    at most one, followed by `CalmV` observations only — in particular no later read is fed -/
theorem loop_trace (env : List EnvStep) (s : Sys) : ResQ s (loop env s) := by
  induction env generalizing s with
  | nil => unfold loop; split; exact ext_same rfl; exact Or.inl (ext_same rfl)
  | cons st rest ih =>
    unfold loop
    split
    · exact ext_same rfl
    · split
      · exact Or.inl (ext_same rfl)
      · rename_i dt readable
        have h0 := tick_quiet s dt
        have h1 := ext_regular timers_notPE (tick s dt)
        unfold regularTop
        split
        · rename_i x s2 hr; rw [hr] at h1
          exact Or.inl ((ext_po _).trans h0 h1)
        · rename_i u s2 hr; rw [hr] at h1
          simp only [Res.state_ok] at h1
          have h01 := (ext_po _).trans h0 h1
          split
          · have := ih s2
            cases hl : loop rest s2 with
            | ok a s' => rw [hl] at this; exact (ext_po _).trans h01 this
            | err x s' => rw [hl] at this; exact Quiet1.before h01 this
          · rename_i o
            have h2 := recvStep_trace o s2
            split
            · rename_i x s3 hr2; rw [hr2] at h2; exact Quiet1.before h01 h2
            · rename_i s3 hr2; rw [hr2] at h2
              have h012 : Ext NotPE s s3 := (ext_po _).trans h01 h2
              have := ih s3
              cases hl : loop rest s3 with
              | ok a s' => rw [hl] at this; exact (ext_po _).trans h012 this
              | err x s' => rw [hl] at this; exact Quiet1.before h012 this
            · rename_i s3 hr2; rw [hr2] at h2; exact (ext_po _).trans h01 h2

theorem runBody_of_loop_okV (env : List EnvStep) (s s1 : Sys) (h : loop env s = .ok () s1) :
    runBody env s = onLoopEnd none s1 := by
  unfold runBody
  have : tryC (do loop env; pure none : M (Option Exn)) (fun x => pure (some x)) s = .ok none s1 :=
    tryC_ok (by rw [bind_ok h]; rfl)
  rw [bind_ok this]

/-- an exception that leaves the loop is handed to the `except` clauses of `run()` -/
theorem runBody_of_loop_err (env : List EnvStep) (s s1 : Sys) (y : Exn) (h : loop env s = .err y s1) :
    runBody env s = onLoopEnd (some y) s1 := by
  unfold runBody
  have : tryC (do loop env; pure none : M (Option Exn)) (fun x => pure (some x)) s = .ok (some y) s1 := by
    rw [tryC_err (bind_err h)]; rfl
  rw [bind_ok this]

theorem calm_onLoopEnd_some (y : Exn) : Spec (Ext CalmV) (onLoopEnd (some y)) := by
  unfold onLoopEnd
  split
  all_goals first
    | exact spec_bind (ext_po _) (ext_closeSocket timers_calm) (fun _ => ext_yieldEv timers_calm _ trivial)
    | exact spec_throwE (ext_po _) _
    | skip
  rename_i h; cases h

theorem quiet_onLoopEnd_none : Spec (Ext NotPE) (onLoopEnd none) := by
  unfold onLoopEnd
  exact spec_bind (ext_po _) (ext_closeSocket timers_notPE) (fun _ => ext_yieldEv timers_notPE _ (by npe))

theorem runBody_trace (env : List EnvStep) (s : Sys) : Quiet1 s (runBody env s).state := by
  have hl := loop_trace env s
  cases h : loop env s with
  | ok u s1 =>
    rw [h] at hl
    rw [runBody_of_loop_okV env s s1 h]
    exact Or.inl ((ext_po _).trans hl (quiet_onLoopEnd_none s1))
  | err y s1 =>
    rw [h] at hl
    rw [runBody_of_loop_err env s s1 y h]
    exact Quiet1.after hl (calm_onLoopEnd_some y s1)

theorem calm_selClose : Spec (Ext CalmV) selClose := by
  intro s; unfold selClose; split
  · exact ext_one (timers_calm.nonEv _ rfl) rfl
  · exact ext_same rfl

theorem calm_runFinally (x : Exn) : Spec (Ext CalmV) (runFinally x) := by
  unfold runFinally
  refine spec_getS_bind (ext_po _) (fun s => spec_bind (ext_po _) ?_ (fun _ =>
    spec_bind (ext_po _) calm_selClose (fun _ => spec_throwE (ext_po _) _)))
  split
  · exact ext_closeSocket timers_calm
  · exact spec_pure (ext_po _) _

theorem runLoop_trace (s : Sys) : Quiet1 s (runLoop s).state := by
  unfold runLoop
  rw [bind_ok (show getS s = .ok s s from rfl)]
  have hb := runBody_trace s.env s
  cases h : runBody s.env s with
  | ok u s1 =>
    rw [h] at hb
    have : (do runBody s.env; selClose : M Unit) s = selClose s1 := bind_ok h
    unfold tryC
    rw [this]
    have hs := calm_selClose s1
    cases h2 : selClose s1 with
    | ok a s2 => rw [h2] at hs; exact Quiet1.after hb hs
    | err x s2 =>
      rw [h2] at hs
      simp only [Res.state_err] at hs
      exact Quiet1.after (Quiet1.after hb hs) (calm_runFinally x s2)
  | err x s1 =>
    rw [h] at hb
    have : (do runBody s.env; selClose : M Unit) s = .err x s1 := bind_err h
    rw [tryC_err this]
    exact Quiet1.after hb (calm_runFinally x s1)

theorem quiet_yieldConnected (proxy : Bool) : Spec (Ext NotPE) (yieldConnected proxy) := by
  unfold yieldConnected
  refine spec_getS_bind (ext_po _) (fun s => ?_)
  split
  · exact spec_tryC (ext_po _) (ext_yieldEv timers_notPE _ (by npe)) (fun x =>
      spec_bind (ext_po _) (ext_closeSocket timers_notPE) (fun _ => spec_throwE (ext_po _) _))
  · exact ext_yieldEv timers_notPE _ (by npe)

/-- a silent prefix in front of a `Quiet1` computation -/
theorem quiet1_bind {m : M α} {f : α → M β} (hm : Spec (Ext NotPE) m) (hf : ∀ a s, Quiet1 s (f a s).state)
    (s : Sys) : Quiet1 s ((m >>= f) s).state := by
  have h1 := hm s
  cases h : m s with
  | ok a s1 => rw [h] at h1; rw [bind_ok h]; exact Quiet1.before h1 (hf a s1)
  | err x s1 => rw [h] at h1; rw [bind_err h]; exact Or.inl h1

theorem afterConnect_trace (proxy : Bool) (s : Sys) : Quiet1 s (afterConnect proxy s).state := by
  unfold afterConnect
  refine quiet1_bind (spec_modS ?h1) (fun _ => quiet1_bind (spec_getS (ext_po _)) (fun s0 =>
    quiet1_bind (ext_write timers_notPE _ _) (fun r s1 => ?h2))) s
  case h1 => intro s; exact ext_same rfl
  split
  · exact Or.inl (spec_bind (ext_po _) (ext_closeSocket timers_notPE)
      (fun _ => ext_yieldEv timers_notPE _ (by npe)) s1)
  · refine quiet1_bind (quiet_yieldConnected proxy) (fun _ =>
      quiet1_bind (spec_modS ?h3) (fun _ => runLoop_trace)) s1
    intro s; exact ext_same rfl

/-- the selector's constructor raised: no byte is ever read, so no ProtocolError event at all -/
theorem quiet_afterConnectNoSel (proxy : Bool) : Spec (Ext NotPE) (afterConnectNoSel proxy) := by
  have hsel : Spec (Ext NotPE) selClose := by
    intro s; unfold selClose; split
    · exact ext_one (timers_notPE.nonEv _ rfl) rfl
    · exact ext_same rfl
  have hfin : ∀ x, Spec (Ext NotPE) (runFinally x) := by
    intro x
    unfold runFinally
    refine spec_getS_bind (ext_po _) (fun s => spec_bind (ext_po _) ?_ (fun _ =>
      spec_bind (ext_po _) hsel (fun _ => spec_throwE (ext_po _) _)))
    split
    · exact ext_closeSocket timers_notPE
    · exact spec_pure (ext_po _) _
  unfold afterConnectNoSel
  refine spec_bind (ext_po _) (spec_modS (fun s => ext_same rfl)) (fun _ => spec_getS_bind (ext_po _) (fun s0 =>
    spec_bind (ext_po _) (ext_write timers_notPE _ _) (fun r => ?_)))
  split
  · exact spec_bind (ext_po _) (ext_closeSocket timers_notPE) (fun _ => ext_yieldEv timers_notPE _ (by npe))
  · refine spec_bind (ext_po _) (quiet_yieldConnected proxy) (fun _ =>
      spec_bind (ext_po _) (spec_modS (fun s => ext_same rfl)) (fun _ => ?_))
    unfold runLoopNoSel
    refine spec_tryC (ext_po _) (spec_bind (ext_po _) ?_ (fun _ => hsel)) hfin
    show Spec (Ext NotPE) (do closeSocket; yieldEv (.disconnected "error" false) : M Unit)
    exact spec_bind (ext_po _) (ext_closeSocket timers_notPE) (fun _ => ext_yieldEv timers_notPE _ (by npe))

theorem run_trace (s : Sys) : Quiet1 s (run s).state := by
  unfold run
  refine quiet1_bind (ext_yieldEv timers_notPE _ (by npe)) (fun _ =>
    quiet1_bind (spec_getS (ext_po _)) (fun s0 s1 => ?_)) s
  cases s0.cfg.connect with
  | socketFail => exact Or.inl (ext_yieldEv timers_notPE _ (by npe) s1)
  | otherFail => exact Or.inl (ext_yieldEv timers_notPE _ (by npe) s1)
  | ok proxy => exact afterConnect_trace _ s1
  | selFail proxy => exact Or.inl (quiet_afterConnectNoSel _ s1)

/-- **whole connection**: the trace of a complete run contains no ProtocolError event, or exactly
    one, and then everything after it is `CalmV` -/
theorem runAll_trace (cfg : Cfg) (react : React) (env : List EnvStep) :
    (∀ o ∈ (runAll cfg react env).trace, NotPE o) ∨
    ∃ post m c pre, (runAll cfg react env).trace = post ++ .ev (.protocolError m c) :: pre ∧
      (∀ o ∈ post, CalmV o) ∧ (∀ o ∈ pre, NotPE o) := by
  have h := run_trace { cfg := cfg, react := react, env := env }
  have fin : ∀ s' : Sys, Quiet1 { cfg := cfg, react := react, env := env } s' →
      (∀ o ∈ s'.trace, NotPE o) ∨
      ∃ post m c pre, s'.trace = post ++ .ev (.protocolError m c) :: pre ∧
        (∀ o ∈ post, CalmV o) ∧ (∀ o ∈ pre, NotPE o) := by
    intro s' hq
    rcases hq with ⟨l, e, hl⟩ | ⟨post, m, c, pre, e, hp, hq⟩
    · left; rw [e]; simpa using hl
    · right; exact ⟨post, m, c, pre, by rw [e]; simp, hp, hq⟩
  have cs : ∀ s : Sys, Ext CalmV s (match closeSocket s with | .ok _ s' => s' | .err _ s' => s') := by
    intro s
    have := ext_closeSocket timers_calm s
    cases hc : closeSocket s with
    | ok a s' => rw [hc] at this; exact this
    | err x s' => rw [hc] at this; exact this
  have inc : ∀ s : Sys, Ext CalmV s { s with trace := .incomplete :: s.trace } :=
    fun s => ext_one (timers_calm.nonEv _ rfl) rfl
  unfold runAll
  simp only []
  generalize run { cfg := cfg, react := react, env := env } = r at h
  cases r with
  | ok a s => exact fin _ h
  | err x s =>
    simp only [Res.state_err] at h
    cases x with
    | genExit => simp only []; split; exact fin _ (h.after (cs s)); exact fin _ h
    | outer y =>
      cases y with
      | genExit => simp only []; split; exact fin _ (h.after (cs s)); exact fin _ h
      | _ => exact fin _ (h.after (inc s))
    | _ => exact fin _ (h.after (inc s))

/-! ### nothing after the violation -/

theorem feedLoop_err_append (a rest : Bytes) (s s' : Sys) (x : Exn) (h : feedLoop a s = .err x s') :
    feedLoop (a ++ rest) s = .err x s' := by
  rw [feedLoop_append, h]; rfl

theorem feedBody_err_append (a rest : Bytes) (s s' : Sys) (x : Exn) (hp : s.p.cont ≠ .header)
    (h : feedBody a s = .err x s') : feedBody (a ++ rest) s = .err x s' := by
  unfold feedBody at h ⊢
  rw [if_neg hp] at h ⊢
  cases hl : feedLoop a s with
  | ok go s1 => rw [hl] at h; cases h
  | err y s1 =>
    rw [hl] at h
    rw [feedLoop_err_append a rest s s1 y hl]
    exact h

/-- an exception out of `WebSocket.feed` leaves the session loop at once: the remaining
    environment (every later read) is never consulted -/
theorem loop_step_err (dt : Nat) (bs : Bytes) (rest : List EnvStep) (s s2 s3 : Sys) (y : Exn)
    (hc : s.closed = false) (hr : regularTop (tick s dt) = .ok () s2) (hso : s2.sockOpen = true)
    (hne : bs ≠ []) (hf : wsFeed bs s2 = .err y s3) :
    loop (.wait dt (some (.data bs)) :: rest) s = .err y s3 := by
  have hrs : recvStep (.data bs) s2 = .err y s3 := by
    unfold recvStep
    simp only [hso, not_true_eq_false, if_false, hne, hf]
  unfold loop
  simp only [hc, Bool.false_eq_true, if_false, hr, hrs]

theorem onLoopEnd_forced (k : String) (s : Sys) :
    onLoopEnd (some (.forceDisconnect k)) s = (do closeSocket; yieldEv (.disconnected k false) : M Unit) s := rfl

theorem onLoopEnd_other (k : String) (s : Sys) :
    onLoopEnd (some (.other k)) s = (do closeSocket; yieldEv (.disconnected k false) : M Unit) s := rfl

/-! ### the pinned commit's behaviour (`ctrlLen = false`, finding D1) on a 126-byte Ping -/

theorem validate_zeros (n : Nat) : Utf8.validate 0 (List.replicate n 0) = some 0 := by
  induction n with
  | zero => rfl
  | succ k ih =>
    rw [List.replicate_succ, Utf8.validate]
    have : Utf8.step 0 0 = 0 := by decide
    simp only [this]
    exact ih

/-- connected, idle, at a frame boundary, with the length rule of the pinned commit -/
def idleD1 : Sys :=
  { cfg := { v := { ctrlLen := false } }, react := fun _ => [], env := [], sockOpen := true,
    parsedResponse := true, p := { cont := .hdr2, remPred := 1 } }

set_option maxRecDepth 8000 in
theorem d1_feedLoop :
    ∃ s', feedLoop ([0x89, 126] ++ ([0, 126] ++ (List.replicate 126 0 ++ []))) idleD1
        = .err (.outer (.other "error")) s' ∧ s'.trace = [.sockClose] := by
  rw [feedLoop_bite [0x89, 126] _ _ rfl]
  rw [biteBytes_plain _ _ _ rfl rfl rfl, resume_hdr2 _ _ _ _ rfl]
  rw [if_pos (by decide)]
  simp only [afterBite]
  rw [feedLoop_bite [0, 126] _ _ rfl]
  rw [biteBytes_plain _ _ _ rfl rfl rfl, resume_len16V _ _ 0x89 _ _ rfl]
  have e : ∃ pP, gotLength idleD1.cfg.v (clean (waitState idleD1.p (.len16 0x89 (decide (126 ≥ 128))) 1)) 0x89
      (decide (126 ≥ 128)) (beVal [0, 126]) = .ok (pP, none) ∧ pP.cont = .payload (hdrFrameV 0x89 none) ∧
      pP.remPred = 125 ∧ pP.buf = [] ∧ pP.dfa = 0 :=
    ⟨_, rfl, rfl, rfl, rfl, rfl⟩
  obtain ⟨pP, e1, c1, c2, c3, c4⟩ := e
  have e1' : gotLength ({ idleD1 with p := waitState idleD1.p (.len16 0x89 (decide (126 ≥ 128))) 1 } : Sys).cfg.v
      (clean (waitState idleD1.p (.len16 0x89 (decide (126 ≥ 128))) 1)) 0x89
      (decide (126 ≥ 128)) (beVal [0, 126]) = .ok (pP, none) := e1
  rw [e1']
  simp only [afterBite]
  have h := stage_payload { idleD1 with p := pP } (hdrFrameV 0x89 none) (List.replicate 126 0) [] c1 c3
    (by rw [List.length_replicate]; exact (congrArg (· + 1) c2).symm)
  rcases h with ⟨p'', _, hval⟩ | ⟨hm, _⟩ | ⟨_, p', _, _, e2⟩
  · have hv : Utf8.validate pP.dfa (List.replicate 126 0) = none := hval
    rw [c4, validate_zeros] at hv; cases hv
  · cases hm
  · rw [e2]
    exact ⟨_, rfl, rfl⟩

/-! ### what can be raised at the `yield` of the ProtocolError event -/

/-- raised in `run()`'s frame by the application (abandoning the generator) or by the timers -/
def AppExn (x : Exn) : Prop := x = .genExit ∨ ∃ k, x = .forceDisconnect k

theorem noRaise_sendData (op : Nat) (pl : Bytes) (c : Bool) : NoRaise (sendData op pl c) := by
  intro s x s' h
  unfold sendData at h
  split at h <;> exact noRaise_sendFrame _ _ _ _ _ _ h

theorem noRaise_logRes {m : M ActRes} (h : NoRaise m) : NoRaise (logRes m) := by
  unfold logRes
  exact raises_bind h (fun r => raises_modS _)

theorem raises_doAct (a : Act) : Raises AppExn (doAct a) := by
  unfold doAct
  split
  all_goals first
    | (refine (noRaise_logRes ?_).to
       first
        | exact noRaise_sendData _ _ _
        | exact noRaise_sendFrame _ _ _
        | exact noRaise_wsClose _ _
        | exact raises_pure _
        | (split <;> first | exact raises_pure _ | exact noRaise_sendData _ _ _ | exact noRaise_sendFrame _ _ _)
        | exact raises_bind noRaise_closeSocket (fun _ => raises_pure _))
    | (intro s x s' h; cases h; exact Or.inl rfl)

theorem raises_doActs (as : List Act) : Raises AppExn (doActs as) := by
  induction as with
  | nil => exact raises_pure _
  | cons a r ih => unfold doActs; exact raises_bind (raises_doAct a) (fun _ => ih)

theorem raises_yieldEv (e : Event) : Raises AppExn (yieldEv e) := by
  unfold yieldEv
  exact raises_bind (raises_modS _) (fun _ => raises_bind raises_getS (fun s => raises_doActs _))

theorem raises_regular : Raises AppExn regular := by
  unfold regular
  refine raises_bind raises_getS (fun s => ?_)
  split
  · refine raises_bind ?_ (fun _ => raises_bind ?_ (fun _ => raises_bind ?_ (fun _ => ?_)))
    · unfold checkPoll
      refine raises_bind raises_getS (fun s => ?_)
      simp only []
      splits
      all_goals first
        | exact raises_pure _
        | exact raises_bind (raises_modS _) (fun _ => raises_yieldEv _)
    · unfold checkAutoPing
      refine raises_bind raises_getS (fun s => ?_)
      simp only []
      split
      · exact raises_bind (raises_modS _) (fun _ => raises_bind (noRaise_sendFrame _ _ _).to (fun _ => raises_pure _))
      · exact raises_pure _
    · unfold checkPingTimeout
      refine raises_bind raises_getS (fun s => ?_)
      simp only []
      split
      · exact raises_bind (raises_yieldEv _) (fun _ => raises_throwE (Or.inr ⟨_, rfl⟩))
      · exact raises_pure _
    · unfold checkCloseTimeout
      refine raises_bind raises_getS (fun s => ?_)
      simp only []
      split
      · split
        · exact raises_pure _
        · split
          · exact raises_throwE (Or.inr ⟨_, rfl⟩)
          · exact raises_pure _
      · exact raises_pure _
  · exact raises_pure _

theorem raises_reactAndTimers : Raises AppExn reactAndTimers := by
  unfold reactAndTimers
  exact raises_bind raises_getS (fun s => raises_bind (raises_doActs _) (fun _ => raises_regular))

/-- **how a reported violation leaves `WebSocket.feed`**: `_ForceDisconnect` (the handler's own
    "forced", or a ping/close time-out falling due at the yield), the ValueError of an over-long
    Close reason, or `GeneratorExit` when the application abandons the loop at that event -/
theorem wsFeed_violation_exn (data : Bytes) (s s1 : Sys) (x : Exn) (msg : String) (crit : Bool)
    (hc : s.closed = false) (hb : feedBody data s = .err x s1) (hx : violationOf x = some (msg, crit)) :
    ∃ y s2, wsFeed data s = .err y s2 ∧
      (y = .genExit ∨ (∃ k, y = .forceDisconnect k) ∨ y = .other "error") := by
  obtain ⟨y, s2, l, cw, e, _, _, _, hy⟩ := wsFeed_violation data s s1 x msg crit hc hb hx
  refine ⟨y, s2, e, ?_⟩
  rcases hy with rfl | rfl | ⟨_, hfy⟩
  · exact Or.inr (Or.inl ⟨_, rfl⟩)
  · exact Or.inr (Or.inr rfl)
  · rw [feedYield_pe] at hfy
    cases hr : reactAndTimers (pushEv (.protocolError msg crit) s1) with
    | ok a s' => rw [hr] at hfy; cases hfy
    | err z s' =>
      rw [hr] at hfy
      have hz := raises_reactAndTimers _ _ _ hr
      injection hfy with h1 h2
      injection h1 with h1
      subst h1
      rcases hz with h | ⟨k, h⟩
      · exact Or.inl h
      · exact Or.inr (Or.inl ⟨k, h⟩)

/-! ### Close frames through the pipeline -/

theorem buildMessage_closeV (f : Frame) (hop : f.opcode = 8) (hr : f.rsv1 = 0) (s : Sys) :
    buildMessage [f] s = liftE (closeFromPayload f.payload) s := by
  unfold buildMessage
  simp only [List.map_cons, List.map_nil, List.flatten_cons, List.flatten_nil, List.append_nil]
  rw [bind_ok (show getS s = .ok s s from rfl)]
  have : ¬ (f.rsv1 ≠ 0 ∧ s.decompress = true) := by rw [hr]; simp
  rw [if_neg this]
  have hm : msgOfPayload f.opcode f.payload = closeFromPayload f.payload := by
    unfold msgOfPayload
    rw [hop]
    simp [Gen.opBinary, Gen.opText, Gen.opClose]
  show (pure f.payload >>= fun pl => liftE (msgOfPayload f.opcode pl)) s = _
  rw [bind_ok (show (pure f.payload : M Bytes) s = .ok f.payload s from rfl), hm]

/-- a Close frame whose payload breaks the rules (one byte; reserved status code; reason not
    UTF-8) raises a violation in the stream/message/websocket layer before anything is yielded -/
theorem onFrame_close_bad (f : Frame) (hop : f.opcode = 8) (hr : f.rsv1 = 0) (s : Sys)
    (hbad : f.payload.length = 1 ∨
      ∃ c0 c1 rb, f.payload = c0 :: c1 :: rb ∧ (Spec.reservedCloseCode (c0 * 256 + c1) ∨ Utf8.wf rb = false)) :
    ∃ x, onFrame f s = .err x s ∧ (violationOf x).isSome = true := by
  have hc : f.isControl = true := by simp [Frame.isControl, hop]
  unfold onFrame
  rw [if_pos hc]
  have hbm := buildMessage_closeV f hop hr s
  rcases hbad with h1 | ⟨c0, c1, rb, hp, hrb⟩
  · rw [closeFromPayload_one _ h1] at hbm
    exact ⟨_, bind_err hbm, rfl⟩
  · rw [hp] at hbm
    cases hw : Utf8.wf rb with
    | false =>
      rcases closeFromPayload_bad c0 c1 rb hw with e | e
      · rw [e] at hbm; exact ⟨_, bind_err hbm, rfl⟩
      · rw [e] at hbm; exact ⟨_, bind_err hbm, rfl⟩
    | true =>
      have hres : Spec.reservedCloseCode (c0 * 256 + c1) := by
        rcases hrb with h | h
        · exact h
        · rw [hw] at h; cases h
      obtain ⟨cps, e, _⟩ := closeFromPayload_good c0 c1 rb hw
      rw [e] at hbm
      have hbm' : buildMessage [f] s = .ok (.close (some (c0 * 256 + c1)) cps) s := hbm
      refine ⟨.protocol s!"reserved close code ({c0 * 256 + c1})", ?_, rfl⟩
      rw [bind_ok hbm']
      exact onClose_reserved _ cps s hres

theorem parserMsg_close (d : Bool) (len : Nat) (h : len ≤ 125) : parserMsg d 0x88 len = none := by
  unfold parserMsg
  have h1 : ¬ (0x88 / 32 % 2 = 1 ∨ 0x88 / 16 % 2 = 1 ∨ (0x88 / 64 % 2 = 1 ∧ d = false)) := by
    cases d <;> decide
  have h2 : ¬ ((3 ≤ 0x88 % 16 ∧ 0x88 % 16 ≤ 7) ∨ (11 ≤ 0x88 % 16 ∧ 0x88 % 16 ≤ 15)) := by decide
  have h3 : ¬ (0x88 % 16 ≥ 8 ∧ 0x88 / 128 = 0) := by decide
  have h4 : ¬ (0x88 % 16 ≥ 8 ∧ len % 128 > 125) := by omega
  rw [if_neg h1, if_neg h2, if_neg h3, if_neg h4]

theorem close_frame_bad (s : Sys) (hv : s.cfg.v.ctrlLen = true) (hs : AwaitHeader s.p)
    (payload rest : Bytes) (hlen : payload.length ≤ 125)
    (hbad : payload.length = 1 ∨
      ∃ c0 c1 rb, payload = c0 :: c1 :: rb ∧ (Spec.reservedCloseCode (c0 * 256 + c1) ∨ Utf8.wf rb = false)) :
    ∃ x p'', feedLoop ([0x88, payload.length] ++ (payload ++ rest)) s = .err x { s with p := p'' } ∧
      (violationOf x).isSome = true := by
  have hw : WireBody payload.length [] [] payload :=
    ⟨fun _ => ⟨rfl, by omega⟩, fun h => by omega, fun h => by omega, by rw [if_neg (by omega)]; rfl,
     fun h => by omega, by omega⟩
  have h := parse_frame s hv hs 0x88 payload.length [] [] payload rest hw
  rw [parserMsg_close _ _ hlen] at h
  simp only [List.nil_append] at h
  rcases h with ⟨p'', e, _⟩ | ⟨hm, _⟩ | ⟨_, p', _, _, e⟩
  · exact ⟨_, p'', e, rfl⟩
  · have := hdrFrame_mask_true _ _ _ hm; omega
  · generalize hfr : ({ hdrFrameV 0x88 (if decide (payload.length ≥ 128) = true then some [] else none) with
                          payload := payload } : Frame) = f at e
    have hop : f.opcode = 8 := by rw [← hfr]; rfl
    have hr : f.rsv1 = 0 := by rw [← hfr]; rfl
    have hpl : f.payload = payload := by rw [← hfr]
    obtain ⟨x, ex, hx⟩ := onFrame_close_bad f hop hr { s with p := p' } (by rw [hpl]; exact hbad)
    rw [← onOut_frame_err] at ex
    rw [ex] at e
    exact ⟨x, p', e, hx⟩

end Lomond.Core
