/-
  Why the websocket is `closing` / `closed`: on every *normal* exit of every library step, if one of
  the two flags is set then a `Closing`, `Closed` or `Rejected` event has been delivered, or the
  application called `close()` in reaction to a history it was really shown (`J`).  (On exceptional
  exits the flags may also have been set by `feed`'s `except GeneratorExit`; those exits end the
  loop with `graceful=False`.)
-/
import Lomond.Proofs.Monitor
set_option linter.unusedSimpArgs false
set_option linter.unusedVariables false
namespace Lomond.Core.Monitor
open Lomond Lomond.Core

/-- events showing that the server started the closing handshake, or that the upgrade was rejected -/
def Event.closeCause : Event → Bool
  | .closing _ _ => true
  | .closed _ _ => true
  | .rejected _ => true
  | _ => false

/-- an observable cause for a closing/closed websocket in the event history `h` (newest first): such
    an event was delivered, or the application `r` called `close()` at a history `h'` it was shown -/
def CauseH (r : React) (h : List Event) : Prop :=
  (∃ e ∈ h, Event.closeCause e = true) ∨ (∃ h', h' <:+ h ∧ ∃ c a, Act.close c a ∈ r h')

theorem CauseH.mono {r : React} {h h' : List Event} (hs : h <:+ h') (hc : CauseH r h) : CauseH r h' := by
  rcases hc with ⟨e, he, hce⟩ | ⟨h1, h1s, hcl⟩
  · exact Or.inl ⟨e, hs.subset he, hce⟩
  · exact Or.inr ⟨h1, h1s.trans hs, hcl⟩

/-- the application is `r0`; if the websocket is closing or closed there is an observable cause -/
def J (r0 : React) (s : Sys) : Prop :=
  s.react = r0 ∧ ((s.closing = true ∨ s.closed = true) → CauseH r0 s.hist)

/-- `J`, and the history extends `h0` -/
def JH (r0 : React) (h0 : List Event) (s : Sys) : Prop := J r0 s ∧ h0 <:+ s.hist

/-- `I` is preserved on normal exits of `m` -/
def OkPres (I : Sys → Prop) (m : M α) : Prop := ∀ s a s', I s → m s = .ok a s' → I s'

variable {I : Sys → Prop}

theorem okPres_pure (a : α) : OkPres I (pure a : M α) := by
  intro s b s' hi h; cases h; exact hi

theorem okPres_throwE (x : Exn) : OkPres I (throwE x : M α) := by
  intro s b s' hi h; cases h

theorem okPres_liftE (r : Except Exn α) : OkPres I (liftE r) := by
  intro s b s' hi h; unfold liftE at h; cases r <;> cases h; exact hi

theorem okPres_bind {m : M α} {f : α → M β} (hm : OkPres I m) (hf : ∀ a, OkPres I (f a)) : OkPres I (m >>= f) := by
  intro s b s' hi h
  cases hms : m s with
  | ok a s1 => rw [bind_ok hms] at h; exact hf a s1 b s' (hm s a s1 hi hms) h
  | err x s1 => rw [bind_err hms] at h; cases h

theorem okPres_getS_bind {f : Sys → M α} (h : ∀ s, OkPres I (f s)) : OkPres I (getS >>= f) := by
  intro s b s' hi hh
  exact h s s b s' hi hh

theorem okPres_modS {f : Sys → Sys} (h : ∀ s, I s → I (f s)) : OkPres I (modS f) := by
  intro s b s' hi hh; cases hh; exact h s hi

theorem okPres_ite (c : Prop) [Decidable c] {m k : M α} (hm : OkPres I m) (hk : OkPres I k) :
    OkPres I (if c then m else k) := by split <;> assumption

/-- `try m except: h` where the handler always (re-)raises -/
theorem okPres_tryC_raise {m : M α} {h : Exn → M α} (hm : OkPres I m) (hh : ∀ x s a s', h x s ≠ .ok a s') :
    OkPres I (tryC m h) := by
  intro s b s' hi hr
  cases hms : m s with
  | ok a s1 => rw [tryC_ok hms] at hr; cases hr; exact hm s _ _ hi hms
  | err x s1 => rw [tryC_err hms] at hr; exact absurd hr (hh x s1 b s')

/-! ### steps that touch neither the flags nor the history -/

structure Quiet (s s' : Sys) : Prop where
  hist : s'.hist = s.hist
  closing : s'.closing = s.closing
  closed : s'.closed = s.closed
  react : s'.react = s.react

theorem quiet_po : PO Quiet where
  refl _ := ⟨rfl, rfl, rfl, rfl⟩
  trans h1 h2 := ⟨h2.hist.trans h1.hist, h2.closing.trans h1.closing, h2.closed.trans h1.closed, h2.react.trans h1.react⟩

variable {r0 : React} {h0 : List Event}

theorem Quiet.j {s s' : Sys} (h : Quiet s s') (hj : J r0 s) : J r0 s' := by
  refine ⟨h.react.trans hj.1, fun hc => ?_⟩
  rw [h.hist]; exact hj.2 (by rw [← h.closing, ← h.closed]; exact hc)

theorem Quiet.jh {s s' : Sys} (h : Quiet s s') (hj : JH r0 h0 s) : JH r0 h0 s' :=
  ⟨h.j hj.1, by rw [h.hist]; exact hj.2⟩

theorem okPres_of_quiet {m : M α} (h : Spec Quiet m) : OkPres (JH r0 h0) m := by
  intro s a s' hi hr
  exact (h.ok hr).jh hi

macro "mon_quiet_leaf" : tactic =>
  `(tactic| ((try simp only [Res.state_ok, Res.state_err])
             first | exact quiet_po.refl _ | exact ⟨rfl, rfl, rfl, rfl⟩))

theorem quiet_closeSocket : Spec Quiet closeSocket := by
  intro s; unfold closeSocket; splits <;> mon_quiet_leaf

theorem quiet_write (d : Bytes) (z : Option (Nat × Bytes)) : Spec Quiet (write d z) := by
  intro s; unfold write; splits <;> mon_quiet_leaf

theorem quiet_sendFrame (op : Nat) (pl : Bytes) (c : Option Bytes) : Spec Quiet (sendFrame op pl c) := by
  intro s; unfold sendFrame
  simp only
  splits
  all_goals first
    | mon_quiet_leaf
    | exact quiet_po.trans (by mon_quiet_leaf) (quiet_write _ _ _)

theorem quiet_sendData (op : Nat) (pl : Bytes) (c : Bool) : Spec Quiet (sendData op pl c) := by
  intro s; unfold sendData; split <;> exact quiet_sendFrame _ _ _ s

theorem quiet_logRes {m : M ActRes} (h : Spec Quiet m) : Spec Quiet (logRes m) := by
  unfold logRes
  refine spec_bind quiet_po h (fun r => ?_)
  intro s; unfold log modS; mon_quiet_leaf

theorem quiet_checkAutoPing : Spec Quiet checkAutoPing := by
  unfold checkAutoPing
  refine spec_getS_bind quiet_po (fun s => ?_)
  simp only []
  split
  · refine spec_bind quiet_po (spec_modS ?_) (fun _ => spec_bind quiet_po (quiet_sendFrame _ _ _) (fun _ => spec_pure quiet_po _))
    intro s; mon_quiet_leaf
  · exact spec_pure quiet_po _

theorem quiet_checkCloseTimeout : Spec Quiet checkCloseTimeout := by
  unfold checkCloseTimeout
  refine spec_getS_bind quiet_po (fun s => ?_)
  simp only []
  splits
  all_goals first | exact spec_pure quiet_po _ | exact spec_throwE quiet_po _

theorem quiet_onEvent (e : Event) : Spec Quiet (onEvent e) := by
  intro s; unfold onEvent
  splits
  all_goals first
    | mon_quiet_leaf
    | (rename_i h; exact (quiet_sendFrame _ _ _).ok h)
    | (rename_i h; exact (quiet_sendFrame _ _ _).err h)

theorem quiet_inflateMessage (j : Bytes) : Spec Quiet (inflateMessage j) := by
  intro s; unfold inflateMessage; simp only []; splits <;> mon_quiet_leaf

theorem quiet_buildMessage (fs : List Frame) : Spec Quiet (buildMessage fs) := by
  unfold buildMessage
  split
  · exact spec_throwE quiet_po _
  · simp only []
    refine spec_getS_bind quiet_po (fun s => ?_)
    refine spec_bind quiet_po ?_ (fun _ => spec_liftE quiet_po _)
    split
    · exact quiet_inflateMessage _
    · exact spec_pure quiet_po _

theorem quiet_checkCloseCode (c : Option Nat) : Spec Quiet (checkCloseCode c) := by
  unfold checkCloseCode
  splits <;> first | exact spec_pure quiet_po _ | exact spec_throwE quiet_po _

theorem quiet_raiseIfArgError (r : ActRes) : Spec Quiet (raiseIfArgError r) := by
  unfold raiseIfArgError
  split <;> first | exact spec_pure quiet_po _ | exact spec_throwE quiet_po _

theorem quiet_notClosed : Spec Quiet notClosed := by
  intro s; unfold notClosed; mon_quiet_leaf

theorem quiet_onEof : Spec Quiet onEof := by
  intro s; unfold onEof; split <;> mon_quiet_leaf

/-! ### `close()` and the application's reaction -/

/-- `close()` leaves history, application and `closed` alone -/
theorem wsClose_ok {c : Option Nat} {r : Arg} {s s' : Sys} {res : ActRes} (h : wsClose c r s = .ok res s') :
    s'.hist = s.hist ∧ s'.react = s.react ∧ s'.closed = s.closed := by
  unfold wsClose at h
  repeat' (first | split at h | (simp only [] at h; split at h))
  all_goals first
    | (cases h <;> exact ⟨rfl, rfl, rfl⟩)
    | (rename_i hsf; cases h; have q := (quiet_sendFrame _ _ _).ok hsf; exact ⟨q.hist, q.react, q.closed⟩)

/-- `close()` with an observable cause keeps `J` -/
theorem wsClose_j {c : Option Nat} {r : Arg} {s s' : Sys} {res : ActRes} (hj : JH r0 h0 s)
    (hc : CauseH r0 s.hist) (h : wsClose c r s = .ok res s') : JH r0 h0 s' := by
  obtain ⟨e1, e2, e3⟩ := wsClose_ok h
  exact ⟨⟨e2.trans hj.1.1, fun _ => by rw [e1]; exact hc⟩, by rw [e1]; exact hj.2⟩

theorem doAct_j (a : Act) (s s' : Sys) (hj : JH r0 h0 s) (hask : ∃ h', h' <:+ s.hist ∧ a ∈ r0 h')
    (h : doAct a s = .ok () s') : JH r0 h0 s' ∧ s'.hist = s.hist := by
  have q : ∀ {m : M ActRes}, Spec Quiet m → logRes m s = .ok () s' → JH r0 h0 s' ∧ s'.hist = s.hist := by
    intro m hm hl
    have := (quiet_logRes hm).ok hl
    exact ⟨this.jh hj, this.hist⟩
  unfold doAct at h
  split at h
  all_goals first
    | exact q (spec_pure quiet_po _) h
    | exact q (quiet_sendData _ _ _) h
    | exact q (quiet_sendFrame _ _ _) h
    | exact q (spec_ite _ (spec_pure quiet_po _) (quiet_sendData _ _ _)) h
    | exact q (spec_ite _ (spec_pure quiet_po _) (quiet_sendFrame _ _ _)) h
    | exact q (spec_bind quiet_po quiet_closeSocket (fun _ => spec_pure quiet_po _)) h
    | skip
  · -- `close(code, reason)`: the application asked for it at a history it was shown
    rename_i code reason
    unfold logRes at h
    cases hw : wsClose code reason s with
    | err x s1 => rw [bind_err hw] at h; cases h
    | ok r s1 =>
      rw [bind_ok hw] at h
      have hl : log (.res r) s1 = .ok () { s1 with trace := .res r :: s1.trace } := rfl
      rw [hl] at h; cases h
      obtain ⟨h', hs', hm⟩ := hask
      have hc : CauseH r0 s.hist := Or.inr ⟨h', hs', code, reason, hm⟩
      have := wsClose_j hj hc hw
      exact ⟨this, (wsClose_ok hw).1⟩
  · cases h

theorem doActs_j (as : List Act) (s s' : Sys) (hj : JH r0 h0 s) (hask : ∀ a ∈ as, ∃ h', h' <:+ s.hist ∧ a ∈ r0 h')
    (h : doActs as s = .ok () s') : JH r0 h0 s' ∧ s'.hist = s.hist := by
  induction as generalizing s with
  | nil => cases h; exact ⟨hj, rfl⟩
  | cons a r ih =>
    unfold doActs at h
    cases ha : doAct a s with
    | err x s1 => rw [bind_err ha] at h; cases h
    | ok u s1 =>
      rw [bind_ok ha] at h
      obtain ⟨hj1, hh1⟩ := doAct_j a s s1 hj (hask a List.mem_cons_self) ha
      obtain ⟨hj2, hh2⟩ := ih s1 hj1 (fun b hb => by rw [hh1]; exact hask b (List.mem_cons_of_mem _ hb)) h
      exact ⟨hj2, hh2.trans hh1⟩

/-- `yield e`: the event enters the history; if it is itself a cause, `J` holds from here on -/
theorem yieldEv_j (e : Event) (s s' : Sys) (hr : s.react = r0) (hs : h0 <:+ s.hist)
    (hj : Event.closeCause e = true ∨ J r0 s) (h : yieldEv e s = .ok () s') :
    JH r0 h0 s' ∧ s'.hist = e :: s.hist := by
  rw [yieldEv_eq] at h
  have hp : JH r0 h0 (pushEv e s) := by
    refine ⟨⟨hr, fun hc => ?_⟩, hs.trans (List.suffix_cons e s.hist)⟩
    rcases hj with hce | hj
    · exact Or.inl ⟨e, List.mem_cons_self, hce⟩
    · exact (hj.2 hc).mono (List.suffix_cons e s.hist)
  have := doActs_j (r0 := r0) (h0 := h0) _ (pushEv e s) s' hp (fun a ha => ⟨e :: s.hist, List.suffix_refl _, by rw [← hr]; exact ha⟩) h
  exact ⟨this.1, this.2⟩

theorem okPres_yieldEv (e : Event) : OkPres (JH r0 h0) (yieldEv e) := by
  intro s u s' hi h
  exact (yieldEv_j e s s' hi.1.1 hi.2 (Or.inr hi.1) h).1

/-! ### timers and events inside `feed` -/

theorem okPres_checkPoll : OkPres (JH r0 h0) checkPoll := by
  unfold checkPoll
  refine okPres_getS_bind (fun s => ?_)
  simp only []
  splits
  all_goals first
    | exact okPres_pure _
    | exact okPres_bind (okPres_modS (fun s hi => hi)) (fun _ => okPres_yieldEv _)

theorem okPres_checkPingTimeout : OkPres (JH r0 h0) checkPingTimeout := by
  unfold checkPingTimeout
  refine okPres_getS_bind (fun s => ?_)
  simp only []
  split
  · exact okPres_bind (okPres_yieldEv _) (fun _ => okPres_throwE _)
  · exact okPres_pure _

theorem okPres_regular : OkPres (JH r0 h0) regular := by
  unfold regular
  refine okPres_getS_bind (fun s => ?_)
  split
  · exact okPres_bind okPres_checkPoll (fun _ => okPres_bind (okPres_of_quiet quiet_checkAutoPing)
      (fun _ => okPres_bind okPres_checkPingTimeout (fun _ => okPres_of_quiet quiet_checkCloseTimeout)))
  · exact okPres_pure _

theorem feedYield_handler_not_ok (b : Bool) (x : Exn) (s : Sys) (a : Unit) (s' : Sys) :
    (do (if b then onDisconnect else pure ()); throwE (.outer x) : M Unit) s ≠ .ok a s' :=
  bind_throwE_not_ok

/-- an event yielded from `feed`: on a normal return `J` holds and the event is in the history — also
    when `J` did not hold before but the event is itself a cause (`Rejected` after `on_disconnect()`) -/
theorem feedYield_j (b : Bool) (e : Event) (s s' : Sys) (hr : s.react = r0) (hs : h0 <:+ s.hist)
    (hj : Event.closeCause e = true ∨ J r0 s) (h : feedYield b e s = .ok () s') :
    JH r0 h0 s' ∧ e ∈ s'.hist := by
  unfold feedYield at h
  cases hi : (do onEvent e; yieldEv e; regular : M Unit) s with
  | err x s1 => rw [tryC_err hi] at h; exact absurd h (feedYield_handler_not_ok b x s1 () s')
  | ok u s3 =>
    rw [tryC_ok hi] at h; cases h
    cases h1 : onEvent e s with
    | err x s1 => rw [bind_err h1] at hi; cases hi
    | ok u1 s1 =>
      rw [bind_ok h1] at hi
      have q1 := (quiet_onEvent e).ok h1
      cases h2 : yieldEv e s1 with
      | err x s2 => rw [bind_err h2] at hi; cases hi
      | ok u2 s2 =>
        rw [bind_ok h2] at hi
        have hj1 : Event.closeCause e = true ∨ J r0 s1 := hj.elim Or.inl (fun j => Or.inr (q1.j j))
        obtain ⟨hj2, hh2⟩ := yieldEv_j (h0 := h0) e s1 s2 (q1.react.trans hr) (by rw [q1.hist]; exact hs) hj1 h2
        have hj2' : JH r0 (e :: s1.hist) s2 := ⟨hj2.1, by rw [hh2]; exact List.suffix_refl _⟩
        have hj3 := okPres_regular s2 _ s' hj2' hi
        have hj3' := okPres_regular s2 _ s' hj2 hi
        exact ⟨hj3', hj3.2.subset List.mem_cons_self⟩

theorem okPres_feedYield (b : Bool) (e : Event) : OkPres (JH r0 h0) (feedYield b e) := by
  intro s u s' hi h
  exact (feedYield_j b e s s' hi.1.1 hi.2 (Or.inr hi.1) h).1

/-! ### messages -/

theorem raiseIfArgError_ok {r : ActRes} {s s' : Sys} (h : raiseIfArgError r s = .ok () s') : s' = s := by
  unfold raiseIfArgError at h
  split at h
  · cases h
  · cases h; rfl

theorem okPres_onClose (c : Option Nat) (r : List Nat) : OkPres (JH r0 h0) (onClose c r) := by
  unfold onClose
  refine okPres_bind (okPres_of_quiet (quiet_checkCloseCode c)) (fun _ => okPres_getS_bind (fun s0 => ?_))
  split
  · exact okPres_pure _
  · split
    · -- `Closed`: the server's Close answers ours
      intro s u s' hi h
      cases h1 : feedYield true (.closed c r) s with
      | err x s1 => rw [bind_err h1] at h; cases h
      | ok u1 s1 =>
        rw [bind_ok h1] at h; cases h
        obtain ⟨hj1, hm⟩ := feedYield_j (h0 := h0) true (.closed c r) s s1 hi.1.1 hi.2 (Or.inr hi.1) h1
        exact ⟨⟨hj1.1.1, fun _ => Or.inl ⟨_, hm, rfl⟩⟩, hj1.2⟩
    · -- `Closing`: the server's Close is echoed
      intro s u s' hi h
      cases h1 : feedYield true (.closing c r) s with
      | err x s1 => rw [bind_err h1] at h; cases h
      | ok u1 s1 =>
        rw [bind_ok h1] at h
        obtain ⟨hj1, hm⟩ := feedYield_j (h0 := h0) true (.closing c r) s s1 hi.1.1 hi.2 (Or.inr hi.1) h1
        have hc1 : CauseH r0 s1.hist := Or.inl ⟨_, hm, rfl⟩
        cases h2 : wsClose c (.str r) s1 with
        | err x s2 => rw [bind_err h2] at h; cases h
        | ok res s2 =>
          rw [bind_ok h2] at h
          have hj2 := wsClose_j hj1 hc1 h2
          have hh2 := (wsClose_ok h2).1
          cases h3 : raiseIfArgError res s2 with
          | err x s3 => rw [bind_err h3] at h; cases h
          | ok u3 s3 =>
            rw [bind_ok h3] at h; cases h
            have := raiseIfArgError_ok h3; subst this
            exact ⟨⟨hj2.1.1, fun _ => by show CauseH r0 s3.hist; rw [hh2]; exact hc1⟩, hj2.2⟩

theorem okPres_onMessage (m : Msg) : OkPres (JH r0 h0) (onMessage m) := by
  unfold onMessage
  split <;> first | exact okPres_onClose _ _ | exact okPres_feedYield _ _ | exact okPres_pure _

theorem okPres_onDataFrame (f : Frame) : OkPres (JH r0 h0) (onDataFrame f) := by
  unfold onDataFrame
  refine okPres_getS_bind (fun s => ?_)
  split
  · exact okPres_throwE _
  · split
    · exact okPres_throwE _
    · refine okPres_bind (okPres_modS (fun s hi => hi)) (fun _ => ?_)
      split
      · exact okPres_getS_bind (fun s => okPres_bind (okPres_of_quiet (quiet_buildMessage _)) (fun m =>
          okPres_bind (okPres_onMessage m) (fun _ => okPres_modS (fun s hi => hi))))
      · exact okPres_pure _

theorem okPres_onFrame (f : Frame) : OkPres (JH r0 h0) (onFrame f) := by
  unfold onFrame
  split
  · exact okPres_bind (okPres_of_quiet (quiet_buildMessage _)) (fun m => okPres_onMessage m)
  · exact okPres_onDataFrame _

theorem onDisconnect_quietish (s s' : Sys) (h : onDisconnect s = .ok () s') :
    s'.hist = s.hist ∧ s'.react = s.react := by
  unfold onDisconnect at h
  obtain ⟨s1, h1⟩ := closeSocket_ok s
  have q := quiet_closeSocket.ok h1
  rw [bind_ok h1] at h; cases h
  exact ⟨q.hist, q.react⟩

theorem okPres_onOut (o : Out) : OkPres (JH r0 h0) (onOut o) := by
  unfold onOut
  split
  · refine okPres_getS_bind (fun s0 => ?_)
    split
    · -- rejected: `on_disconnect()` first, then the `Rejected` event, which is the cause
      rename_i reason _hq
      intro s b s' hi h
      rw [modS_bind] at h
      obtain ⟨s2, h2, _⟩ := onDisconnect_ok { s with parsedResponse := true }
      obtain ⟨e1, e2⟩ := onDisconnect_quietish _ _ h2
      rw [bind_ok h2] at h
      cases h3 : feedYield true (.rejected reason) s2 with
      | err x s3 => rw [bind_err h3] at h; cases h
      | ok u s3 =>
        rw [bind_ok h3] at h; cases h
        exact (feedYield_j (h0 := h0) true (.rejected reason) s2 _ (e2.trans hi.1.1) (by rw [e1]; exact hi.2) (Or.inl rfl) h3).1
    · exact okPres_bind (okPres_modS (fun s hi => hi)) (fun _ => okPres_bind (okPres_feedYield _ _) (fun _ =>
        okPres_bind (okPres_modS (fun s hi => hi)) (fun _ => okPres_of_quiet quiet_notClosed)))
  · exact okPres_bind (okPres_onFrame _) (fun _ => okPres_of_quiet quiet_notClosed)

theorem okPres_feedLoop (data : Bytes) : OkPres (JH r0 h0) (feedLoop data) := by
  induction h : data.length using Nat.strongRecOn generalizing data with
  | _ n ih =>
    intro s b s' hi e
    rw [feedLoop] at e
    by_cases hd : data = []
    · simp only [hd, dite_true] at e; cases e; exact hi
    · simp only [hd, dite_false] at e
      have hlt : (data.drop (s.p.remPred + 1)).length < n := by
        have : data.length ≠ 0 := fun hl => hd (List.eq_nil_of_length_eq_zero hl)
        simp only [List.length_drop]; omega
      cases hb : biteBytes s.cfg.v s.p (data.take (s.p.remPred + 1)) with
      | error y => rw [hb] at e; simp only at e; cases e
      | ok r =>
        obtain ⟨p', out⟩ := r
        rw [hb] at e
        have hi1 : JH r0 h0 { s with p := p' } := hi
        cases out with
        | none => simp only at e; exact ih _ hlt _ rfl _ _ _ hi1 e
        | some o =>
          simp only at e
          cases hr : onOut o { s with p := p' } with
          | err y s2 => rw [hr] at e; simp only at e; cases e
          | ok go s2 =>
            rw [hr] at e
            have hi2 := okPres_onOut o _ _ _ hi1 hr
            cases go with
            | true => simp only at e; exact ih _ hlt _ rfl _ _ _ hi2 e
            | false => simp only at e; cases e; exact hi2

theorem okPres_afterHeader (rest : Bytes) (out : Option Out) : OkPres (JH r0 h0) (afterHeader rest out) := by
  unfold afterHeader
  split
  · refine okPres_bind (okPres_onOut _) (fun go => ?_)
    split
    · exact okPres_bind (okPres_feedLoop _) (fun _ => okPres_pure _)
    · exact okPres_pure _
  · exact okPres_bind (okPres_feedLoop _) (fun _ => okPres_pure _)

theorem okPres_feedHeader (data : Bytes) : OkPres (JH r0 h0) (feedHeader data) := by
  intro s u s' hi e
  unfold feedHeader at e; simp only [] at e
  split at e
  · split at e
    · cases e
    · cases e; exact hi
  · split at e
    · cases e
    · split at e
      · cases e
      · rename_i p' out _; exact okPres_afterHeader _ _ { s with p := p' } _ _ hi e

theorem okPres_feedBody (data : Bytes) : OkPres (JH r0 h0) (feedBody data) := by
  intro s u s' hi e
  unfold feedBody at e
  split at e
  · exact okPres_feedHeader data _ _ _ hi e
  · split at e
    · rename_i h; cases e; exact okPres_feedLoop data _ _ _ hi h
    · cases e

theorem unwrapOuter_not_ok (x : Exn) (s : Sys) (a : Unit) (s' : Sys) : unwrapOuter x s ≠ .ok a s' := by
  obtain ⟨y, hy⟩ := unwrapOuter_err x s
  rw [hy]; intro h; cases h

theorem okPres_wsFeed (data : Bytes) : OkPres (JH r0 h0) (wsFeed data) := by
  intro s u s' hi e
  unfold wsFeed at e
  split at e
  · cases e; exact hi
  · exact okPres_tryC_raise (okPres_tryC_raise (okPres_feedBody data) feedHandler_not_ok) unwrapOuter_not_ok _ _ _ hi e

theorem okPres_recvStep (o : RecvOutcome) : OkPres (JH r0 h0) (recvStep o) := by
  intro s b s' hi e
  unfold recvStep at e
  split at e
  · exact okPres_of_quiet quiet_onEof _ _ _ hi e
  · split at e
    · cases e
    · cases e
    · exact okPres_of_quiet quiet_onEof _ _ _ hi e
    · split at e
      · exact okPres_of_quiet quiet_onEof _ _ _ hi e
      · split at e
        · rename_i h; cases e; exact okPres_wsFeed _ _ _ _ hi h
        · cases e

/-- **`J` is an invariant of the session loop on its normal exit** -/
theorem okPres_loop (env : List EnvStep) : OkPres (JH r0 h0) (loop env) := by
  induction env with
  | nil =>
    intro s u s' hi e; unfold loop at e
    split at e
    · cases e; exact hi
    · cases e
  | cons st rest ih =>
    intro s u s' hi e; unfold loop at e
    split at e
    · cases e; exact hi
    · split at e
      · cases e
      · rename_i dt readable
        have h0' : JH r0 h0 (tick s dt) := hi
        unfold regularTop at e
        split at e
        · cases e
        · rename_i u2 s2 hr
          have h1 := okPres_regular _ _ _ h0' hr
          split at e
          · exact ih _ _ _ h1 e
          · split at e
            · cases e
            · rename_i s3 hr2; exact ih _ _ _ (okPres_recvStep _ _ _ _ h1 hr2) e
            · rename_i s3 hr2; cases e; exact okPres_recvStep _ _ _ _ h1 hr2

/-- the loop ends normally only when the websocket is closed, or at an end-of-stream that arrives
    while the closing handshake is under way -/
theorem loop_ok_closing (env : List EnvStep) (s s' : Sys) (h : loop env s = .ok () s') :
    s'.closed = true ∨ s'.closing = true := by
  induction env generalizing s with
  | nil =>
    unfold loop at h
    split at h
    · rename_i hc; cases h; exact Or.inl hc
    · cases h
  | cons st rest ih =>
    unfold loop at h
    split at h
    · rename_i hc; cases h; exact Or.inl hc
    · split at h
      · cases h
      · unfold regularTop at h
        split at h
        · cases h
        · split at h
          · exact ih _ h
          · split at h
            · cases h
            · exact ih _ h
            · rename_i o s3 hr
              cases h
              -- `recvStep` returns `false` only through `onEof`
              have heof : ∀ s0 : Sys, onEof s0 = .ok false s' → s'.closed = true ∨ s'.closing = true := by
                intro s0 h0
                unfold onEof at h0
                split at h0
                · cases h0
                · rename_i hn
                  cases h0
                  cases hcl : s'.closed
                  · cases hcg : s'.closing
                    · exact absurd ⟨by simp [hcg], by simp [hcl]⟩ hn
                    · exact Or.inr rfl
                  · exact Or.inl rfl
              unfold recvStep at hr
              split at hr
              · exact heof _ hr
              · split at hr
                · cases hr
                · cases hr
                · exact heof _ hr
                · split at hr
                  · exact heof _ hr
                  · split at hr
                    · cases hr
                    · cases hr

/-- the loop ends normally only with an observable cause for the closing handshake -/
theorem loop_ok_cause (env : List EnvStep) (s s' : Sys) (hj : J r0 s) (h : loop env s = .ok () s') :
    CauseH r0 s'.hist := by
  have hj' := okPres_loop (r0 := r0) (h0 := []) env s () s' ⟨hj, List.nil_suffix⟩ h
  have hc := loop_ok_closing env s s' h
  exact hj'.1.2 (hc.elim Or.inr Or.inl)

/-! ### the part of `run()` before the loop -/

theorem okPres_yieldConnected (proxy : Bool) : OkPres (JH r0 h0) (yieldConnected proxy) := by
  unfold yieldConnected
  refine okPres_getS_bind (fun s => ?_)
  split
  · exact okPres_tryC_raise (okPres_yieldEv _) (fun x s a s' => bind_throwE_not_ok)
  · exact okPres_yieldEv _

end Lomond.Core.Monitor
