/-
  Dynamic-Huffman blocks (BTYPE=10) written by the reference encoder: `dynamicTables` reads the
  header (HLIT, HDIST, HCLEN, the code-length code, the code lengths) back to the two tables
  `mkHuff` builds from the encoder's code lengths, and those tables decode the encoder's
  canonical code words (Proofs/InflateCanon.lean).
-/
import Lomond.Proofs.InflateCanon
import Lomond.Proofs.InflateSym
import Lomond.Proofs.InflateStored
set_option linter.unusedSimpArgs false
set_option linter.unusedVariables false
namespace Lomond.Inflate
open Lomond Lomond.DeflEnc Lomond.Deflate

/-! ### tables from complete code lengths -/

theorem countLens_getD (ll : List Nat) (l : Nat) (h : l < 16) : (countLens ll).getD l 0 = ll.count l := by
  simp only [countLens]
  rw [← getD_toList]
  simp only [List.getD_eq_getElem?_getD, List.getElem?_map, List.getElem?_range h]
  rfl

/-- a complete length assignment (Kraft sum exactly 1) is accepted by `mkHuff`, as a complete code -/
theorem mkHuff_complete (lens : List Nat) (isCodes : Bool) (hk : kraft lens = 2 ^ 15) :
    ∃ h, mkHuff lens.toArray isCodes = some h ∧ h.shape = .complete := by
  unfold kraft at hk
  simp only [List.range, List.range.loop, List.foldl, Nat.reduceAdd, Nat.reduceSub, Nat.reducePow, Nat.zero_add] at hk
  unfold mkHuff classify
  simp only [List.range, List.range.loop, List.foldl, Nat.reduceAdd, Nat.reduceSub, Nat.reducePow, Nat.zero_add]
  simp only [countLens_getD lens _ (by decide : 1 < 16), countLens_getD lens _ (by decide : 2 < 16),
    countLens_getD lens _ (by decide : 3 < 16), countLens_getD lens _ (by decide : 4 < 16),
    countLens_getD lens _ (by decide : 5 < 16), countLens_getD lens _ (by decide : 6 < 16),
    countLens_getD lens _ (by decide : 7 < 16), countLens_getD lens _ (by decide : 8 < 16),
    countLens_getD lens _ (by decide : 9 < 16), countLens_getD lens _ (by decide : 10 < 16),
    countLens_getD lens _ (by decide : 11 < 16), countLens_getD lens _ (by decide : 12 < 16),
    countLens_getD lens _ (by decide : 13 < 16), countLens_getD lens _ (by decide : 14 < 16),
    countLens_getD lens _ (by decide : 15 < 16)]
  rw [if_neg (by omega), if_neg (by omega), if_pos (by omega)]
  exact ⟨_, rfl, rfl⟩

/-- **the canonical code of a complete length assignment is a code of the table `mkHuff` builds** -/
theorem code_canon (lens : List Nat) (isCodes : Bool) (h : Huff) (hm : mkHuff lens.toArray isCodes = some h)
    (hsh : h.shape = .complete) (hk : kraft lens ≤ 2 ^ 15) (h15 : ∀ l ∈ lens, l ≤ 15) :
    Code h (canonCode lens) (fun s => 1 ≤ lens.getD s 0) where
  dec := by
    intro inp pos s r hs hr
    have hc := mkHuff_canon lens.toArray isCodes h hm
    simp only [] at hc
    have hget : lens[s]? = some (lens.getD s 0) := by
      rw [List.getD_eq_getElem?_getD] at hs ⊢
      cases hx : lens[s]? with
      | none => rw [hx] at hs; simp at hs
      | some x => simp
    have hl15 : lens.getD s 0 ≤ 15 := by
      apply h15
      rw [List.getElem?_eq_some_iff] at hget
      obtain ⟨hi, he⟩ := hget
      rw [← he]; exact List.getElem_mem hi
    rw [decode_complete h hsh, hr, goL_canonCode h lens hc s _ r hget hs hl15 (kraft_fits lens hk _ hs hl15)]
    simp [rdOf, canonCode]
  pos := by
    intro s hs
    simpa [canonCode] using hs

/-! ### the code-length code of the encoder -/

/-- the lengths of the code-length code as `readClLens` rebuilds them -/
def clArr : Array Nat := #[4, 4, 4, 4, 4, 4, 4, 4, 4, 4, 4, 4, 4, 4, 4, 4, 0, 0, 0]

/-- the code-length code: the sixteen 4-bit codes 0000..1111 for the lengths 0..15 -/
def clH : Huff :=
  { count := #[3, 0, 0, 0, 16, 0, 0, 0, 0, 0, 0, 0, 0, 0, 0, 0]
    symbol := #[0, 1, 2, 3, 4, 5, 6, 7, 8, 9, 10, 11, 12, 13, 14, 15]
    shape := .complete }

theorem mkHuff_cl : mkHuff clArr true = some clH := by decide +kernel

theorem cl_words : ∀ s, s < 16 → goL clH 15 1 0 0 0 (bitsMSB 4 s) = some (some s, 4) := by decide +kernel

theorem code_cl : Code clH (bitsMSB 4) (· < 16) where
  dec := by
    intro inp pos s r hs h
    rw [decode_complete clH rfl, h, goL_append _ _ _ _ _ _ _ r _ _ (cl_words s hs)]
    simp [rdOf]
  pos := fun s _ => by simp

/-- `readClLens` stores the values in the order of `clOrder` -/
def setAll : Nat → List Nat → Array Nat → Array Nat
  | _, [], acc => acc
  | j, v :: vs, acc => setAll (j + 1) vs (acc.set! (Inflate.clOrder.getD j 0) v)

theorem readClLens_spec {inp : Array Nat} (hwf : ∀ x ∈ inp.toList, x < 256) (vals : List Nat)
    (hv : ∀ v ∈ vals, v < 8) (j pos : Nat) (acc : Array Nat) (r : List Bool) (hp : pos ≤ 8 * inp.size)
    (h : Rest inp pos = vals.flatMap (bitsLE 3) ++ r) :
    readClLens inp vals.length j pos acc = .ok (setAll j vals acc) (pos + 3 * vals.length) := by
  induction vals generalizing j pos acc with
  | nil => simp [readClLens, setAll]
  | cons v vs ih =>
    simp only [List.flatMap_cons, List.append_assoc] at h
    have hb := bits_spec hwf (by decide) (hv v (by simp)) hp h
    have hbd := rest_bound h (by simp [bitsLE])
    simp only [bitsLE_length] at hbd
    have := ih (fun v' h' => hv v' (by simp [h'])) (j + 1) (pos + 3) (acc.set! (Inflate.clOrder.getD j 0) v)
      (by omega) (by simpa using rest_append h)
    simp only [List.length_cons, readClLens, hb, this, setAll]
    congr 1
    omega

theorem readLens_spec {inp : Array Nat} (rem : List Nat) (hr : ∀ l ∈ rem, l < 16) (total fuel pos : Nat)
    (acc : Array Nat) (r : List Bool) (htot : acc.size + rem.length = total) (hf : rem.length < fuel)
    (h : Rest inp pos = rem.flatMap (bitsMSB 4) ++ r) :
    readLens inp clH total fuel pos acc = .ok (acc ++ rem.toArray) (pos + 4 * rem.length) := by
  induction rem generalizing fuel pos acc with
  | nil =>
    obtain ⟨fuel, rfl⟩ : ∃ f, fuel = f + 1 := ⟨fuel - 1, by simp at hf; omega⟩
    rw [readLens, if_pos (by simp at htot; omega)]
    simp
  | cons l rem ih =>
    obtain ⟨fuel, rfl⟩ : ∃ f, fuel = f + 1 := ⟨fuel - 1, by simp at hf; omega⟩
    simp only [List.flatMap_cons, List.append_assoc] at h
    have hl := hr l (by simp)
    have hd := code_cl.dec hl h
    simp only [bitsMSB_length] at hd
    rw [readLens, if_neg (by simp at htot; omega)]
    have hsh : clH.shape = .complete := rfl
    simp only [hsh, hd, hl, if_true]
    rw [ih (fun l' h' => hr l' (by simp [h'])) fuel (pos + 4) (acc.push l) (by simp at htot ⊢; omega)
      (by simp at hf; omega) (by simpa using rest_append h)]
    congr 1
    · apply Array.toList_inj.mp; simp
    · simp; omega

/-! ### the header -/

theorem bitsLE_concat (n m a b : Nat) (ha : a < 2 ^ n) : bitsLE (n + m) (a + 2 ^ n * b) = bitsLE n a ++ bitsLE m b := by
  rw [bitsLE_add, ← bitsLE_mod n (a + 2 ^ n * b)]
  have h1 : (a + 2 ^ n * b) % 2 ^ n = a := by
    rw [Nat.add_mul_mod_self_left, Nat.mod_eq_of_lt ha]
  have h2 : (a + 2 ^ n * b) / 2 ^ n = b := by
    rw [Nat.add_mul_div_left _ _ (Nat.two_pow_pos n), Nat.div_eq_of_lt ha, Nat.zero_add]
  rw [h1, h2]

theorem clOrder_bits :
    DeflEnc.clOrder.flatMap (fun s => bitsLE 3 (clLen s)) = (DeflEnc.clOrder.map clLen).flatMap (bitsLE 3) := by
  decide

theorem setAll_cl : setAll 0 (DeflEnc.clOrder.map clLen) (Array.replicate 19 0) = clArr := by decide

theorem lens_bits_length (l : List Nat) : (l.flatMap (bitsMSB 4)).length = 4 * l.length := by
  induction l with
  | nil => rfl
  | cons x l ih => simp only [List.flatMap_cons, List.length_append, bitsMSB_length, ih, List.length_cons]; omega

/-- **the header of a dynamic block**: `dynamicTables` returns the tables `mkHuff` builds from
    the encoder's code lengths, at the position just after the header -/
theorem dynamicTables_spec {inp : Array Nat} (hwf : ∀ x ∈ inp.toList, x < 256) (ll dl : List Nat) (p0 : Nat)
    (r : List Bool) (hl1 : 257 ≤ ll.length) (hl2 : ll.length ≤ 286) (hd1 : 1 ≤ dl.length) (hd2 : dl.length ≤ 30)
    (h15 : ∀ l ∈ ll ++ dl, l ≤ 15) (heob : 1 ≤ ll.getD 256 0) (lit dist : Huff)
    (hlit : mkHuff ll.toArray false = some lit) (hdist : mkHuff dl.toArray false = some dist)
    (h : Rest inp p0 = dynHeader ll dl ++ r) :
    dynamicTables inp p0 = .ok (lit, dist) (p0 + (dynHeader ll dl).length) := by
  simp only [dynHeader, List.append_assoc] at h
  -- the 14 bits HLIT, HDIST, HCLEN
  have e14 : bitsLE 5 (ll.length - 257) ++ (bitsLE 5 (dl.length - 1) ++ bitsLE 4 15)
      = bitsLE 14 ((ll.length - 257) + 2 ^ 5 * ((dl.length - 1) + 2 ^ 5 * 15)) := by
    rw [show (14 : Nat) = 5 + (5 + 4) from rfl, bitsLE_concat 5 (5 + 4) _ _ (by simp; omega),
      bitsLE_concat 5 4 _ _ (by simp; omega)]
  rw [← List.append_assoc (bitsLE 5 (dl.length - 1)), ← List.append_assoc (bitsLE 5 (ll.length - 257)), e14] at h
  have hbd := rest_bound h (by simp [bitsLE])
  have hb14 := bits_spec hwf (by decide) (by simp; omega) (by omega) h
  have h1 := rest_append h
  simp only [bitsLE_length] at h1 hbd
  rw [clOrder_bits] at h1
  have hbd1 := rest_bound h1 (by decide)
  have hcl := readClLens_spec hwf (DeflEnc.clOrder.map clLen) (by decide) 0 (p0 + 14) (Array.replicate 19 0) _
    (by omega) h1
  rw [setAll_cl] at hcl
  have h2 := rest_append h1
  have hlen19 : ((DeflEnc.clOrder.map clLen).flatMap (bitsLE 3)).length = 57 := by decide
  have hlen19' : (DeflEnc.clOrder.map clLen).length = 19 := by decide
  rw [hlen19] at h2
  rw [hlen19'] at hcl
  have hr16 : ∀ l ∈ ll ++ dl, l < 16 := fun l hl => by have := h15 l hl; omega
  have hrl := readLens_spec (ll ++ dl) hr16 (ll.length + dl.length) (ll.length + dl.length + 1) (p0 + 14 + 57) #[] r
    (by simp) (by simp) h2
  -- the numbers
  have ev : ((ll.length - 257) + 2 ^ 5 * ((dl.length - 1) + 2 ^ 5 * 15)) % 32 + 257 = ll.length := by omega
  have ed : ((ll.length - 257) + 2 ^ 5 * ((dl.length - 1) + 2 ^ 5 * 15)) / 32 % 32 + 1 = dl.length := by omega
  have ec : ((ll.length - 257) + 2 ^ 5 * ((dl.length - 1) + 2 ^ 5 * 15)) / 1024 % 16 + 4 = 19 := by omega
  unfold dynamicTables
  rw [hb14]
  simp only [ev, ed, ec]
  rw [if_neg (by omega)]
  simp only [hcl, mkHuff_cl, hrl]
  have e256 : (#[] ++ (ll ++ dl).toArray).getD 256 0 = ll.getD 256 0 := by
    rw [← getD_toList]
    simp only [Array.toList_append, List.nil_append, Array.toList_empty, List.getD_eq_getElem?_getD]
    rw [List.getElem?_append_left (by omega)]
  rw [e256, if_neg (by omega)]
  have ex1 : (#[] ++ (ll ++ dl).toArray).extract 0 ll.length = ll.toArray := by
    apply Array.toList_inj.mp
    simp [Array.toList_extract, List.extract_eq_take_drop]
  have ex2 : (#[] ++ (ll ++ dl).toArray).extract ll.length (ll.length + dl.length) = dl.toArray := by
    apply Array.toList_inj.mp
    simp [Array.toList_extract, List.extract_eq_take_drop]
  simp only [ex1, ex2, hlit, hdist]
  congr 1
  simp only [dynHeader, List.length_append, bitsLE_length, hlen19, clOrder_bits, lens_bits_length]
  omega

end Lomond.Inflate
