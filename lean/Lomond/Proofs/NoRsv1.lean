/-
  "Without negotiation the client never sets RSV1", for whole connections.

  `Neg s s'`: the trace only grew, and if in `s` nothing is negotiated and no compressed frame has
  been written (`NoZ s`), then in `s'` either that is still so, or a `Ready` event announcing
  permessage-deflate is in the trace.  Proved for every function of the core model from the
  bottom to `run` (the lower half comes from `Quiet`, Proofs/Quiet.lean), hence for `runAll`.
-/
import Lomond.Proofs.Quiet
import Lomond.Proofs.DeflateCore
set_option linter.unusedSimpArgs false
set_option linter.unusedVariables false
namespace Lomond.Core
open Lomond

/-- a `Ready` event that lists permessage-deflate is in the trace -/
def ReadyZ (tr : List Obs) : Prop := ∃ p, Obs.ev (.ready p true) ∈ tr

/-- nothing negotiated (yet) and no compressed frame written -/
def NoZ (s : Sys) : Prop := s.compression = none ∧ NoWrz s.trace

structure Neg (s s' : Sys) : Prop where
  tr : ∃ l, s'.trace = l ++ s.trace
  keep : NoZ s → NoZ s' ∨ ReadyZ s'.trace

theorem readyZ_ext {a : List Obs} (l : List Obs) (h : ReadyZ a) : ReadyZ (l ++ a) := by
  obtain ⟨p, hp⟩ := h
  exact ⟨p, List.mem_append_right _ hp⟩

theorem neg_po : PO Neg where
  refl s := ⟨⟨[], rfl⟩, Or.inl⟩
  trans := by
    intro a b c h1 h2
    obtain ⟨l1, e1⟩ := h1.tr
    obtain ⟨l2, e2⟩ := h2.tr
    refine ⟨⟨l2 ++ l1, by rw [e2, e1, List.append_assoc]⟩, fun ha => ?_⟩
    rcases h1.keep ha with hb | hb
    · exact h2.keep hb
    · right; rw [e2]; exact readyZ_ext _ hb

theorem Quiet.neg {s s' : Sys} (h : Quiet s s') : Neg s s' := by
  obtain ⟨l, e, n⟩ := h.tr
  refine ⟨⟨l, e⟩, fun hz => Or.inl ⟨h.comp.trans hz.1, ?_⟩⟩
  rw [e]; exact noWrz_append (n hz.1) hz.2

theorem neg_of_quiet {m : M α} (h : Spec Quiet m) : Spec Neg m := fun s => (h s).neg

/-- an update that touches neither the configuration nor the trace -/
theorem neg_same {s s' : Sys} (hc : s'.compression = s.compression) (ht : s'.trace = s.trace) : Neg s s' :=
  ⟨⟨[], by simp [ht]⟩, fun hz => Or.inl ⟨hc.trans hz.1, by rw [ht]; exact hz.2⟩⟩

/-- … or appends one harmless observation -/
theorem neg_cons {s s' : Sys} (o : Obs) (hc : s'.compression = s.compression) (ht : s'.trace = o :: s.trace)
    (ho : ∀ op pl, Obs.wrz op pl ≠ o) : Neg s s' :=
  ⟨⟨[o], by simp [ht]⟩, fun hz => Or.inl ⟨hc.trans hz.1, by
    rw [ht]; intro op pl hm
    rcases List.mem_cons.mp hm with h | h
    · exact ho op pl h
    · exact hz.2 op pl h⟩⟩

macro "neg_leaf" : tactic =>
  `(tactic| ((try simp only [Res.state_ok, Res.state_err])
             first
              | exact neg_po.refl _
              | exact neg_same rfl rfl
              | (refine neg_cons _ rfl rfl ?_; intro op pl h; cases h)))

theorem neg_inflateMessage (j : Bytes) : Spec Neg (inflateMessage j) := by
  intro s; unfold inflateMessage; simp only []; splits <;> neg_leaf

theorem neg_buildMessage (fs : List Frame) : Spec Neg (buildMessage fs) := by
  unfold buildMessage
  split
  · exact spec_throwE neg_po _
  · simp only []
    refine spec_getS_bind neg_po (fun s => ?_)
    refine spec_bind neg_po ?_ (fun _ => spec_liftE neg_po _)
    split
    · exact neg_inflateMessage _
    · exact spec_pure neg_po _

theorem neg_onMessage (m : Msg) : Spec Neg (onMessage m) := neg_of_quiet (quiet_onMessage_z m)
theorem neg_notClosed : Spec Neg notClosed := neg_of_quiet quiet_notClosed_z
theorem neg_feedYield (b : Bool) (e : Event) : Spec Neg (feedYield b e) := neg_of_quiet (quiet_feedYield b e)
theorem neg_yieldEv (e : Event) : Spec Neg (yieldEv e) := neg_of_quiet (quiet_yieldEv e)
theorem neg_closeSocket : Spec Neg closeSocket := neg_of_quiet quiet_closeSocket
theorem neg_regular : Spec Neg regular := neg_of_quiet quiet_regular
theorem neg_onDisconnect : Spec Neg onDisconnect := neg_of_quiet quiet_onDisconnect
theorem neg_wsClose (c : Option Nat) (r : Arg) : Spec Neg (wsClose c r) := neg_of_quiet (quiet_wsClose c r)
theorem neg_raiseIfArgError (r : ActRes) : Spec Neg (raiseIfArgError r) := neg_of_quiet (quiet_raiseIfArgError_z r)

theorem neg_onDataFrame (f : Frame) : Spec Neg (onDataFrame f) := by
  unfold onDataFrame
  refine spec_getS_bind neg_po (fun s => ?_)
  split
  · exact spec_throwE neg_po _
  · split
    · exact spec_throwE neg_po _
    · refine spec_bind neg_po (spec_modS ?_) (fun _ => ?_)
      · intro s; neg_leaf
      · split
        · refine spec_getS_bind neg_po (fun s => spec_bind neg_po (neg_buildMessage _) (fun m =>
            spec_bind neg_po (neg_onMessage m) (fun _ => spec_modS ?_)))
          intro s; neg_leaf
        · exact spec_pure neg_po _

theorem neg_onFrame (f : Frame) : Spec Neg (onFrame f) := by
  unfold onFrame
  split
  · exact spec_bind neg_po (neg_buildMessage _) (fun m => neg_onMessage m)
  · exact neg_onDataFrame _

/-- the handshake response: the only place where a configuration appears — together with the
    `Ready` event that announces it -/
theorem neg_onOut (o : Out) : Spec Neg (onOut o) := by
  cases o with
  | frame f =>
    unfold onOut
    exact spec_bind neg_po (neg_onFrame _) (fun _ => neg_notClosed)
  | header data =>
    intro s
    have hstep := step_onOut (.header data) s
    unfold onOut
    simp only []
    rw [bind_ok (show getS s = .ok s s from rfl)]
    cases hresp : Http.onResponse s.cfg.v.strictAccept s.cfg.challenge (Http.parseResponse data) with
    | error reason =>
      simp only []
      have : Spec Neg (do modS (fun s => { s with parsedResponse := true }); onDisconnect
                          feedYield true (.rejected reason); pure false : M Bool) := by
        refine spec_bind neg_po (spec_modS ?_) (fun _ => spec_bind neg_po neg_onDisconnect (fun _ =>
          spec_bind neg_po (neg_feedYield _ _) (fun _ => spec_pure neg_po _)))
        intro s; neg_leaf
      exact this s
    | ok acc =>
      simp only []
      cases hd : acc.deflate with
      | none =>
        have : Spec Neg (do
            modS (fun s => { s with compression := none, decompress := (none : Option Http.DeflateCfg).isSome,
                                     p := if (none : Option Http.DeflateCfg).isSome then { s.p with compression := true } else s.p })
            feedYield true (.ready acc.protocol (none : Option Http.DeflateCfg).isSome)
            modS (fun s => { s with parsedResponse := true }); notClosed : M Bool) := by
          refine spec_bind neg_po (spec_modS ?_) (fun _ => spec_bind neg_po (neg_feedYield _ _) (fun _ =>
            spec_bind neg_po (spec_modS ?_) (fun _ => neg_notClosed)))
          · intro s
            exact ⟨⟨[], rfl⟩, fun hz => Or.inl ⟨rfl, hz.2⟩⟩
          · intro s; neg_leaf
        exact this s
      | some d =>
        -- the trace part comes from `Step`; the `Ready(… permessage-deflate)` event is logged
        refine ⟨?_, fun _ => Or.inr ?_⟩
        · have := hstep.traceExt
          unfold onOut at this
          simp only [] at this
          rw [bind_ok (show getS s = .ok s s from rfl)] at this
          simp only [hresp, hd] at this
          exact this
        · simp only [Option.isSome_some, if_true]
          rw [bind_ok (show modS (fun s => { s with compression := some d, decompress := true, p := { s.p with compression := true } }) s
                = .ok () { s with compression := some d, decompress := true, p := { s.p with compression := true } } from rfl)]
          have hf := feedYield_logged true (.ready acc.protocol true)
            { s with compression := some d, decompress := true, p := { s.p with compression := true } } _ rfl
          cases hr : feedYield true (.ready acc.protocol true)
              { s with compression := some d, decompress := true, p := { s.p with compression := true } } with
          | err x s2 =>
            rw [hr] at hf
            rw [bind_err hr]
            exact ⟨acc.protocol, hf.1⟩
          | ok u s2 =>
            rw [hr] at hf
            rw [bind_ok hr]
            rw [bind_ok (show modS (fun s => { s with parsedResponse := true }) s2 = .ok () { s2 with parsedResponse := true } from rfl)]
            unfold notClosed
            exact ⟨acc.protocol, hf.1⟩

theorem neg_setP (s : Sys) (p' : PState) : Neg s { s with p := p' } := neg_same rfl rfl

theorem neg_feedLoop (data : Bytes) : Spec Neg (feedLoop data) := by
  induction h : data.length using Nat.strongRecOn generalizing data with
  | _ n ih =>
    intro s
    rw [feedLoop]
    by_cases hd : data = []
    · simp only [hd, dite_true]; neg_leaf
    · simp only [hd, dite_false]
      have hlt : (data.drop (s.p.remPred + 1)).length < n := by
        have : data.length ≠ 0 := fun hl => hd (List.eq_nil_of_length_eq_zero hl)
        simp only [List.length_drop]; omega
      cases hb : biteBytes s.cfg.v s.p (data.take (s.p.remPred + 1)) with
      | error x =>
        simp only [Res.state_err]
        exact neg_setP s _
      | ok r =>
        obtain ⟨p', out⟩ := r
        have hs1 : Neg s { s with p := p' } := neg_setP s p'
        cases out with
        | none =>
          simp only
          exact neg_po.trans hs1 (ih _ hlt _ rfl _)
        | some o =>
          simp only
          have ho := neg_onOut o { s with p := p' }
          cases hr : onOut o { s with p := p' } with
          | err x s2 => rw [hr] at ho; simp only [Res.state_err] at ho ⊢; exact neg_po.trans hs1 ho
          | ok go s2 =>
            rw [hr] at ho; simp only [Res.state_ok] at ho
            cases go with
            | true => simp only; exact neg_po.trans hs1 (neg_po.trans ho (ih _ hlt _ rfl _))
            | false => simp only [Res.state_ok]; exact neg_po.trans hs1 ho

theorem neg_afterHeader (rest : Bytes) (out : Option Out) : Spec Neg (afterHeader rest out) := by
  unfold afterHeader
  split
  · refine spec_bind neg_po (neg_onOut _) (fun go => ?_)
    split
    · exact spec_bind neg_po (neg_feedLoop _) (fun _ => spec_pure neg_po _)
    · exact spec_pure neg_po _
  · exact spec_bind neg_po (neg_feedLoop _) (fun _ => spec_pure neg_po _)

theorem neg_feedHeader (data : Bytes) : Spec Neg (feedHeader data) := by
  intro s; unfold feedHeader; simp only []
  split
  · split
    · neg_leaf
    · simp only [Res.state_ok]; exact neg_setP s _
  · split
    · neg_leaf
    · split
      · neg_leaf
      · rename_i p' out hr
        exact neg_po.trans (neg_setP s p') (neg_afterHeader _ _ _)

theorem neg_feedBody (data : Bytes) : Spec Neg (feedBody data) := by
  intro s; unfold feedBody
  split
  · exact neg_feedHeader data s
  · have := neg_feedLoop data s
    split <;> (rename_i h; rw [h] at this; simpa using this)

theorem neg_feedHandler (x : Exn) : Spec Neg (feedHandler x) := by
  unfold feedHandler
  split
  · exact spec_bind neg_po (neg_feedYield _ _) (fun _ => spec_throwE neg_po _)
  · exact spec_bind neg_po (neg_feedYield _ _) (fun _ => spec_throwE neg_po _)
  · exact spec_bind neg_po (neg_feedYield _ _) (fun _ => spec_bind neg_po (neg_wsClose _ _) (fun r =>
      spec_bind neg_po (neg_raiseIfArgError r) (fun _ => spec_throwE neg_po _)))
  · exact spec_throwE neg_po _

theorem neg_unwrapOuter (x : Exn) : Spec Neg (unwrapOuter x) := by
  unfold unwrapOuter; split <;> exact spec_throwE neg_po _

theorem neg_wsFeed (data : Bytes) : Spec Neg (wsFeed data) := by
  intro s; unfold wsFeed
  split
  · neg_leaf
  · exact spec_tryC neg_po (spec_tryC neg_po (neg_feedBody data) neg_feedHandler) neg_unwrapOuter s

theorem neg_onEof : Spec Neg onEof := by
  intro s; unfold onEof; split <;> neg_leaf

theorem neg_recvStep (o : RecvOutcome) : Spec Neg (recvStep o) := by
  intro s; unfold recvStep
  split
  · exact neg_onEof s
  · split
    · neg_leaf
    · neg_leaf
    · exact neg_onEof s
    · rename_i bs
      split
      · exact neg_onEof s
      · have := neg_wsFeed bs s
        split <;> (rename_i h; rw [h] at this; simpa using this)

theorem neg_tick (s : Sys) (dt : Nat) : Neg s (tick s dt) := by
  unfold tick
  by_cases h : dt ≠ 0
  · refine neg_cons (.tick (s.now + dt)) rfl (by simp [h]) ?_; intro op pl h; cases h
  · exact neg_same rfl (by simp [h])

theorem neg_loop (env : List EnvStep) : Spec Neg (loop env) := by
  induction env with
  | nil => intro s; unfold loop; split <;> neg_leaf
  | cons st rest ih =>
    intro s; unfold loop
    split
    · neg_leaf
    · split
      · neg_leaf
      · rename_i dt readable
        have h0 := neg_tick s dt
        have h1 := neg_regular (tick s dt)
        unfold regularTop
        split
        · rename_i x s2 hr; rw [hr] at h1; exact neg_po.trans h0 h1
        · rename_i u s2 hr; rw [hr] at h1
          simp only [Res.state_ok] at h1
          split
          · exact neg_po.trans h0 (neg_po.trans h1 (ih s2))
          · rename_i o
            have h2 := neg_recvStep o s2
            split
            · rename_i x s3 hr2; rw [hr2] at h2; exact neg_po.trans h0 (neg_po.trans h1 h2)
            · rename_i s3 hr2; rw [hr2] at h2
              exact neg_po.trans h0 (neg_po.trans h1 (neg_po.trans h2 (ih s3)))
            · rename_i s3 hr2; rw [hr2] at h2; exact neg_po.trans h0 (neg_po.trans h1 h2)

theorem neg_selClose : Spec Neg selClose := by
  intro s; unfold selClose; split <;> neg_leaf

theorem neg_onLoopEnd (r : Option Exn) : Spec Neg (onLoopEnd r) := by
  unfold onLoopEnd
  split
  all_goals first
    | exact spec_bind neg_po neg_closeSocket (fun _ => neg_yieldEv _)
    | exact spec_throwE neg_po _

theorem neg_runBody (env : List EnvStep) : Spec Neg (runBody env) := by
  unfold runBody
  refine spec_bind neg_po ?_ (fun r => neg_onLoopEnd r)
  exact spec_tryC neg_po (spec_bind neg_po (neg_loop env) (fun _ => spec_pure neg_po _)) (fun x => spec_pure neg_po _)

theorem neg_runFinally (x : Exn) : Spec Neg (runFinally x) := by
  unfold runFinally
  refine spec_getS_bind neg_po (fun s => ?_)
  refine spec_bind neg_po ?_ (fun _ => spec_bind neg_po neg_selClose (fun _ => spec_throwE neg_po _))
  split
  · exact neg_closeSocket
  · exact spec_pure neg_po _

theorem neg_runLoop : Spec Neg runLoop := by
  unfold runLoop
  refine spec_getS_bind neg_po (fun s => ?_)
  exact spec_tryC neg_po (spec_bind neg_po (neg_runBody _) (fun _ => neg_selClose)) neg_runFinally

theorem neg_yieldConnected (proxy : Bool) : Spec Neg (yieldConnected proxy) := by
  unfold yieldConnected
  refine spec_getS_bind neg_po (fun s => ?_)
  split
  · exact spec_tryC neg_po (neg_yieldEv _) (fun x => spec_bind neg_po neg_closeSocket (fun _ => spec_throwE neg_po _))
  · exact neg_yieldEv _

theorem neg_afterConnect (proxy : Bool) : Spec Neg (afterConnect proxy) := by
  unfold afterConnect
  refine spec_bind neg_po (spec_modS ?_) (fun _ => ?_)
  · intro s; neg_leaf
  · refine spec_getS_bind neg_po (fun s => ?_)
    refine spec_bind neg_po (neg_of_quiet (quiet_write _)) (fun r => ?_)
    split
    · exact spec_bind neg_po neg_closeSocket (fun _ => neg_yieldEv _)
    · refine spec_bind neg_po (neg_yieldConnected _) (fun _ => spec_bind neg_po (spec_modS ?_) (fun _ => neg_runLoop))
      intro s; neg_leaf

theorem neg_runLoopNoSel : Spec Neg runLoopNoSel := by
  unfold runLoopNoSel
  exact spec_tryC neg_po (spec_bind neg_po (neg_onLoopEnd _) (fun _ => neg_selClose)) neg_runFinally

theorem neg_afterConnectNoSel (proxy : Bool) : Spec Neg (afterConnectNoSel proxy) := by
  unfold afterConnectNoSel
  refine spec_bind neg_po (spec_modS ?_) (fun _ => ?_)
  · intro s; neg_leaf
  · refine spec_getS_bind neg_po (fun s => ?_)
    refine spec_bind neg_po (neg_of_quiet (quiet_write _)) (fun r => ?_)
    split
    · exact spec_bind neg_po neg_closeSocket (fun _ => neg_yieldEv _)
    · refine spec_bind neg_po (neg_yieldConnected _) (fun _ => spec_bind neg_po (spec_modS ?_) (fun _ => neg_runLoopNoSel))
      intro s; neg_leaf

theorem neg_run : Spec Neg run := by
  unfold run
  refine spec_bind neg_po (neg_yieldEv _) (fun _ => ?_)
  refine spec_getS_bind neg_po (fun s => ?_)
  split
  · exact neg_yieldEv _
  · exact neg_yieldEv _
  · exact neg_afterConnect _
  · exact neg_afterConnectNoSel _

/-- **whole connections**: a compressed frame in the trace implies a `Ready` event that lists
    permessage-deflate -/
theorem runAll_wrz_ready (cfg : Cfg) (react : React) (env : List EnvStep) :
    NoZ (runAll cfg react env) ∨ ReadyZ (runAll cfg react env).trace := by
  have h0 : NoZ ({ cfg := cfg, react := react, env := env } : Sys) := ⟨rfl, noWrz_nil⟩
  have hrun := neg_run { cfg := cfg, react := react, env := env }
  unfold runAll
  simp only []
  cases hr : run { cfg := cfg, react := react, env := env } with
  | ok u s => rw [hr] at hrun; exact hrun.keep h0
  | err x s =>
    rw [hr] at hrun
    simp only [Res.state_err] at hrun
    have hfin : ∀ s', Neg s s' → NoZ s' ∨ ReadyZ s'.trace := fun s' h => (neg_po.trans hrun h).keep h0
    have hclose : Neg s (match closeSocket s with | .ok _ s' => s' | .err _ s' => s') := by
      have := neg_closeSocket s
      cases hc : closeSocket s <;> (rw [hc] at this; simpa using this)
    have hinc : Neg s { s with trace := .incomplete :: s.trace } := by
      refine neg_cons _ rfl rfl ?_; intro op pl h; cases h
    cases x with
    | genExit => simp only []; split; exact hfin _ hclose; exact hfin _ (neg_po.refl _)
    | outer y =>
      cases y with
      | genExit => simp only []; split; exact hfin _ hclose; exact hfin _ (neg_po.refl _)
      | _ => exact hfin _ hinc
    | _ => exact hfin _ hinc

end Lomond.Core
