/-
  Helper lemmas for the two loop calls that reach outside the established connection
  (`Model/Threads.lean`: `.connect` from the state `initPre` — no socket yet —, and `.abandon`):

    * the invariants of C11 / C12 (`Base`, `CInv`, and for the general socket `BaseN`, `CInvN`, `KInv`) are stated
      over arbitrary states and preserved by every step; here they are ESTABLISHED by `initPre`;
    * `.abandon` is a straight-line program that contains the `sockClose` step: once the loop thread has finished it,
      the socket is shut (`AbInv`), whatever the other threads did in between;
    * hand-off: in every state that satisfies the lock invariant some unfinished thread can move — the holder of
      the lock is never itself waiting for it (`someone_can_move`).
-/
import Lomond.Proofs.ThreadsC
import Lomond.Proofs.ThreadsNC
import Lomond.Proofs.ThreadsNK
set_option linter.unusedSimpArgs false
set_option linter.unusedVariables false

namespace Lomond.Threads
open Lomond

/-! ### the invariants hold before the connection exists -/

theorem lockInv_initPre (v : Variant) (cfg : Cfg) (progs : Tid → List Call) : LockInv v cfg (initPre progs) := by
  constructor
  · intro t; exact fresh_disc v cfg _ rfl
  · intro t
    rw [fresh_holds v cfg _ rfl]
    simp [initPre]

theorem wireInv_initPre (v : Variant) (cfg : Cfg) (progs : Tid → List Call) : WireInv v cfg (initPre progs) := by
  constructor
  · intro t c f r hc hr
    have := headW2_of_rest hc hr
    rw [fresh_headW2 v cfg _ rfl] at this; cases this
  · intro _; rfl
  · intro _ t; exact fresh_headW2 v cfg _ rfl

theorem msgInv_initPre (v : Variant) (cfg : Cfg) (progs : Tid → List Call) : MsgInv v cfg (initPre progs) := by
  constructor
  · intro t; rfl
  · intro t c h; cases h
  · intro t; simp [initPre, idxs, frames]
  · intro t i
    simp [initPre, idxs, frames, wroteAt]

theorem callInv_initPre (v : Variant) (cfg : Cfg) (progs : Tid → List Call) : CallInv v cfg (initPre progs) := by
  constructor
  · intro t c hc
    rcases current_cases hc with h | ⟨_, call, hp, hcc⟩
    · cases h
    · exact curOk_fresh v cfg _ c call hp hcc
  · intro ch h; cases h
  · intro t i r h; simp [initPre] at h

theorem base_initPre (v : Variant) (cfg : Cfg) (progs : Tid → List Call) : Base v cfg (initPre progs) :=
  ⟨lockInv_initPre v cfg progs, wireInv_initPre v cfg progs, msgInv_initPre v cfg progs, callInv_initPre v cfg progs⟩

theorem baseN_initPre (v : Variant) (cfg : Cfg) (progs : Tid → List Call) : BaseN v cfg (initPre progs) :=
  ⟨lockInv_initPre v cfg progs, msgInv_initPre v cfg progs, callInv_initPre v cfg progs⟩

theorem cInv_initPre (v : Variant) (cfg : Cfg) (progs : Tid → List Call) (hv : v.closeAtomic = true) :
    CInv v cfg (initPre progs) := by
  constructor
  · intro t; exact fresh_cdisc v cfg _ hv rfl
  · intro t; exact fresh_adisc v cfg _ rfl
  · intro t h; rw [fresh_pred v cfg atClear rfl (compile_atClear v cfg) _ rfl] at h; cases h
  · intro h; cases h
  · intro t _; rfl
  · intro t c hc h
    rw [← view_of_current hc, fresh_pred v cfg atChkBoth rfl (compile_atBoth v cfg) _ rfl] at h; cases h
  · rfl
  · intro t c f r hc hr
    have := headW2_of_rest hc hr
    rw [fresh_headW2 v cfg _ rfl] at this; cases this

theorem cInvN_initPre (v : Variant) (cfg : Cfg) (progs : Tid → List Call) (hv : v.closeAtomic = true) :
    CInvN v cfg (initPre progs) := by
  constructor
  · intro t; exact fresh_cdisc v cfg _ hv rfl
  · intro t; exact fresh_adisc v cfg _ rfl
  · intro t h; rw [fresh_pred v cfg atClear rfl (compile_atClear v cfg) _ rfl] at h; cases h
  · intro h; cases h
  · intro t _; rfl
  · intro t c hc h
    rw [← view_of_current hc, fresh_pred v cfg atChkBoth rfl (compile_atBoth v cfg) _ rfl] at h; cases h
  · rfl
  · intro t _; rfl

theorem kInv_initPre (v : Variant) (cfg : Cfg) (progs : Tid → List Call) : KInv v cfg (initPre progs) := by
  constructor
  · intro t c call hc hcall hcl
    rcases current_cases hc with h | ⟨_, call2, hp, rfl⟩
    · cases h
    · simp only at hcall
      rw [hp] at hcall; cases hcall
      exact Or.inr (compile_owes v cfg call hcl)
  · intro t i r call h; simp [initPre] at h

theorem initPre_prog (progs : Tid → List Call) (t : Tid) : ((initPre progs).th t).prog = progs t := rfl

/-! ### `.abandon`: the socket is shut once the call is over -/

/-- steps that never move the program pointer anywhere but to the next step -/
def straightStep : Step → Bool
  | .retIfClosed => false
  | .retIfClosing => false
  | .brIfClosing _ => false
  | .brIfErr _ => false
  | .chkSock => false
  | .chkClosed => false
  | .chkClosing => false
  | .chkBoth => false
  | .write1 _ => false
  | .write2 _ => false
  | _ => true

def straight (r : List Step) : Bool := r.all straightStep

def isSockClose : Step → Bool
  | .sockClose => true
  | _ => false

def hasSC (r : List Step) : Bool := r.any isSockClose

theorem abandon_straight (v : Variant) (cfg : Cfg) : straight (compile v cfg .abandon) = true := by
  simp only [compile]; split <;> rfl

theorem abandon_hasSC (v : Variant) (cfg : Cfg) : hasSC (compile v cfg .abandon) = true := by
  simp only [compile]; split <;> rfl

theorem exec_straight (v : Variant) (t : Tid) (st : Step) (r : List Step) (sh : Shared) (c : Cur)
    (h : straightStep st = true) : (exec v t st r sh c).2.rest = r ∧ (exec v t st r sh c).2.halt = c.halt := by
  cases st <;> first | exact ⟨rfl, rfl⟩ | cases h

/-- a shut socket stays shut -/
theorem exec_shut_mono (v : Variant) (t : Tid) (st : Step) (r : List Step) (sh : Shared) (c : Cur)
    (h : sh.sockShut = true) : (exec v t st r sh c).1.sockShut = true := by
  cases st <;> simp only [exec] <;> (repeat' split) <;> first | exact h | rfl

theorem exec_sockClose_shut (v : Variant) (t : Tid) (r : List Step) (sh : Shared) (c : Cur) :
    (exec v t .sockClose r sh c).1.sockShut = true := rfl

/-- where the abandoning thread `l` stands, and what that means for the socket -/
inductive AbState (v : Variant) (cfg : Cfg) (s : State) (l : Tid) : Prop
  /-- the generator has not been closed yet -/
  | fresh : (s.th l).cur = none → (s.th l).pc = 0 → (s.th l).halted = false → AbState v cfg s l
  /-- inside `gen.close()`: the rest is straight-line, and `sockClose` is ahead unless the socket is already shut -/
  | inside (c : Cur) : (s.th l).cur = some c → (s.th l).pc = 0 → (s.th l).halted = false → c.halt = false →
      straight c.rest = true → (hasSC c.rest = true ∨ s.sh.sockShut = true) → AbState v cfg s l
  /-- `gen.close()` has returned -/
  | done : (s.th l).cur = none → (s.th l).pc = 1 → s.sh.sockShut = true → AbState v cfg s l

structure AbInv (v : Variant) (cfg : Cfg) (s : State) (l : Tid) : Prop where
  prog : (s.th l).prog = [.abandon]
  st : AbState v cfg s l

theorem abInv_init (v : Variant) (cfg : Cfg) (progs : Tid → List Call) (l : Tid) (h : progs l = [.abandon]) :
    AbInv v cfg (init progs) l :=
  ⟨h, .fresh rfl rfl rfl⟩

/-- the other threads cannot undo anything: their steps keep a shut socket shut and do not touch thread `l` -/
theorem abInv_step (v : Variant) (cfg : Cfg) (s : State) (l t : Tid) (I : AbInv v cfg s l) :
    AbInv v cfg (step v cfg s t) l := by
  rcases step_cases v cfg s t with e | ⟨c, st, r, hc, hr, hb, e⟩
  · rw [e]; exact I
  · rw [e]
    have hmono := exec_shut_mono v t st r s.sh c
    by_cases hu : l = t
    · subst hu
      refine ⟨by rw [setTh_same, settle_prog]; exact I.prog, ?_⟩
      have hh := current_not_halted hc
      -- the call in progress of `l` is `.abandon` (fresh) or the stored straight-line rest
      have key : c.halt = false ∧ straight c.rest = true ∧ (hasSC c.rest = true ∨ s.sh.sockShut = true) ∧
          (s.th l).pc = 0 := by
        cases I.st with
        | fresh h1 h2 h3 =>
          rcases current_cases hc with h | ⟨_, call, hp, rfl⟩
          · rw [h1] at h; cases h
          · rw [I.prog, h2] at hp
            cases hp
            exact ⟨rfl, abandon_straight v cfg, Or.inl (abandon_hasSC v cfg), h2⟩
        | inside c2 h1 h2 h3 h4 h5 h6 =>
          rcases current_cases hc with h | ⟨h, _⟩
          · rw [h1] at h; cases h; exact ⟨h4, h5, h6, h2⟩
          · rw [h1] at h; cases h
        | done h1 h2 h3 =>
          rcases current_cases hc with h | ⟨_, call, hp, _⟩
          · rw [h1] at h; cases h
          · rw [I.prog, h2] at hp; cases hp
      obtain ⟨hhalt, hstr, hsc, hpc⟩ := key
      rw [hr] at hstr hsc
      simp only [straight, List.all_cons, Bool.and_eq_true] at hstr
      obtain ⟨hrest, hhalt'⟩ := exec_straight v l st r s.sh c hstr.1
      have hshut : hasSC r = true ∨ (exec v l st r s.sh c).1.sockShut = true := by
        rcases hsc with h | h
        · simp only [hasSC, List.any_cons, Bool.or_eq_true] at h
          rcases h with h | h
          · right
            cases st <;> first | (cases h; done) | rfl
          · exact Or.inl h
        · exact Or.inr (hmono h)
      generalize exec v l st r s.sh c = p at hrest hhalt' hshut hmono
      have hth : (setTh s l (settle (s.th l) p.2) p.1).th l = settle (s.th l) p.2 := setTh_same _ _ _ _
      by_cases hfin : p.2.rest = []
      · have h1 : (settle (s.th l) p.2).cur = none := by unfold settle; simp [hfin]
        have h2 : (settle (s.th l) p.2).pc = 1 := by unfold settle; simp [hfin, hpc]
        refine .done (by rw [hth]; exact h1) (by rw [hth]; exact h2) ?_
        rw [setTh_sh]
        rcases hshut with h | h
        · rw [← hrest, hfin] at h; cases h
        · exact h
      · have h1 : (settle (s.th l) p.2).cur = some p.2 := by unfold settle; simp [hfin]
        have h2 : (settle (s.th l) p.2).pc = 0 := by unfold settle; simp [hfin, hpc]
        have h3 : (settle (s.th l) p.2).halted = false := by unfold settle; simp [hfin, hh]
        refine .inside p.2 (by rw [hth]; exact h1) (by rw [hth]; exact h2) (by rw [hth]; exact h3)
          (by rw [hhalt', hhalt]) (by rw [hrest]; exact hstr.2) ?_
        rw [setTh_sh, hrest]; exact hshut
    · refine ⟨by rw [setTh_other _ _ _ _ _ hu]; exact I.prog, ?_⟩
      cases I.st with
      | fresh h1 h2 h3 =>
        exact .fresh (by rw [setTh_other _ _ _ _ _ hu]; exact h1) (by rw [setTh_other _ _ _ _ _ hu]; exact h2)
          (by rw [setTh_other _ _ _ _ _ hu]; exact h3)
      | inside c2 h1 h2 h3 h4 h5 h6 =>
        refine .inside c2 (by rw [setTh_other _ _ _ _ _ hu]; exact h1) (by rw [setTh_other _ _ _ _ _ hu]; exact h2)
          (by rw [setTh_other _ _ _ _ _ hu]; exact h3) h4 h5 ?_
        rcases h6 with h | h
        · exact Or.inl h
        · exact Or.inr (by rw [setTh_sh]; exact hmono h)
      | done h1 h2 h3 =>
        exact .done (by rw [setTh_other _ _ _ _ _ hu]; exact h1) (by rw [setTh_other _ _ _ _ _ hu]; exact h2)
          (by rw [setTh_sh]; exact hmono h3)

theorem abInv_run (v : Variant) (cfg : Cfg) (s : State) (l : Tid) (sched : List Tid) (I : AbInv v cfg s l) :
    AbInv v cfg (run v cfg s sched) l := by
  induction sched generalizing s with
  | nil => exact I
  | cons t r ih => exact ih _ (abInv_step v cfg s l t I)

/-- the abandoning thread never stands in front of a write -/
theorem abInv_not_atW {v : Variant} {cfg : Cfg} {s : State} {l : Tid} (I : AbInv v cfg s l) {c : Cur}
    (hc : (s.th l).current v cfg = some c) : straight c.rest = true := by
  cases I.st with
  | fresh h1 h2 h3 =>
    rcases current_cases hc with h | ⟨_, call, hp, rfl⟩
    · rw [h1] at h; cases h
    · rw [I.prog, h2] at hp
      cases hp
      exact abandon_straight v cfg
  | inside c2 h1 h2 h3 h4 h5 h6 =>
    rcases current_cases hc with h | ⟨h, _⟩
    · rw [h1] at h; cases h; exact h5
    · rw [h1] at h; cases h
  | done h1 h2 h3 =>
    rcases current_cases hc with h | ⟨_, call, hp, _⟩
    · rw [h1] at h; cases h
    · rw [I.prog, h2] at hp; cases hp

theorem abInv_other (v : Variant) (cfg : Cfg) (s : State) (l t : Tid) (I : AbInv v cfg s l) (hu : l ≠ t)
    (p : Shared × Cur) (hmono : s.sh.sockShut = true → p.1.sockShut = true) :
    AbInv v cfg (setTh s t (settle (s.th t) p.2) p.1) l := by
  refine ⟨by rw [setTh_other _ _ _ _ _ hu]; exact I.prog, ?_⟩
  cases I.st with
  | fresh h1 h2 h3 =>
    exact .fresh (by rw [setTh_other _ _ _ _ _ hu]; exact h1) (by rw [setTh_other _ _ _ _ _ hu]; exact h2)
      (by rw [setTh_other _ _ _ _ _ hu]; exact h3)
  | inside c2 h1 h2 h3 h4 h5 h6 =>
    refine .inside c2 (by rw [setTh_other _ _ _ _ _ hu]; exact h1) (by rw [setTh_other _ _ _ _ _ hu]; exact h2)
      (by rw [setTh_other _ _ _ _ _ hu]; exact h3) h4 h5 ?_
    rcases h6 with h | h
    · exact Or.inl h
    · exact Or.inr (by rw [setTh_sh]; exact hmono h)
  | done h1 h2 h3 =>
    exact .done (by rw [setTh_other _ _ _ _ _ hu]; exact h1) (by rw [setTh_other _ _ _ _ _ hu]; exact h2)
      (by rw [setTh_sh]; exact hmono h3)

/-- the same for the general socket (any number of chunks, failing writes): the abandoning thread writes nothing, and
    the writes of the others do not reopen the socket -/
theorem abInv_stepN (env : Env) (v : Variant) (cfg : Cfg) (s : State) (l t : Tid) (I : AbInv v cfg s l) :
    AbInv v cfg (stepN env v cfg s t) l := by
  rcases stepN_cases env v cfg s t with ⟨_, e⟩ | ⟨c, f, r, hc, hr, e⟩ | ⟨c, f, r, hc, hr, e⟩
  · rw [e]; exact abInv_step v cfg s l t I
  · rw [e]
    by_cases hu : l = t
    · subst hu
      have := abInv_not_atW I hc
      rw [hr] at this; cases this
    · refine abInv_other v cfg s l t I hu _ ?_
      intro h
      have o := execW1_out env t f r s.sh c
      generalize execW1 env t f r s.sh c = p at o
      cases o <;> exact h
  · rw [e]
    by_cases hu : l = t
    · subst hu
      have := abInv_not_atW I hc
      rw [hr] at this; cases this
    · refine abInv_other v cfg s l t I hu _ ?_
      intro h
      have o := execW2_out env t f r s.sh c
      generalize execW2 env t f r s.sh c = p at o
      cases o <;> exact h

theorem abInv_runN (env : Env) (v : Variant) (cfg : Cfg) (s : State) (l : Tid) (sched : List Tid) (I : AbInv v cfg s l) :
    AbInv v cfg (runN env v cfg s sched) l := by
  unfold runN
  induction sched generalizing s with
  | nil => exact I
  | cons t r ih => exact ih _ (abInv_stepN env v cfg s l t I)

/-- a finished abandoning thread has shut the socket -/
theorem abInv_finished {v : Variant} {cfg : Cfg} {s : State} {l : Tid} (I : AbInv v cfg s l)
    (h : (s.th l).current v cfg = none) : s.sh.sockShut = true := by
  cases I.st with
  | fresh h1 h2 h3 =>
    simp [Thread.current, h1, h2, h3, I.prog] at h
  | inside c h1 h2 h3 h4 h5 h6 =>
    simp [Thread.current, h1, h3] at h
  | done _ _ h3 => exact h3

/-! ### what can stand after a chunk of a Close frame -/

/-- with `nothingAfterClose`, whatever follows a chunk of a Close frame belongs to the same call (it is that frame's own
    second half) -/
theorem nac_after (pre : List Chunk) (y : Chunk) (rest : List Chunk)
    (h : nothingAfterClose (pre ++ y :: rest) = true) (hy : isClose y = true) :
    ∀ x ∈ rest, x.tid = y.tid ∧ x.idx = y.idx := by
  induction pre with
  | nil =>
    simp only [List.nil_append, nothingAfterClose, hy, if_true] at h
    cases rest with
    | nil => intro x hx; cases hx
    | cons d rest2 =>
      cases rest2 with
      | nil =>
        simp only [Bool.and_eq_true, decide_eq_true_eq] at h
        intro x hx
        simp only [List.mem_singleton] at hx
        subst hx
        exact ⟨h.1.1.2, h.1.2⟩
      | cons e rest3 => cases h
  | cons c pre ih =>
    simp only [List.cons_append, nothingAfterClose] at h
    by_cases hc : isClose c = true
    · simp only [hc, if_true] at h
      cases pre with
      | nil =>
        cases rest with
        | nil => intro x hx; cases hx
        | cons d rest2 => simp at h
      | cons c2 pre2 =>
        cases pre2 with
        | nil => simp at h
        | cons c3 pre3 => simp at h
    · simp only [hc] at h
      exact ih h

/-! ### hand-off: some unfinished thread can always move -/

/-- the thread that holds the lock is not waiting for it -/
theorem holder_enabled {v : Variant} {cfg : Cfg} {s : State} (L : LockInv v cfg s) {h : Tid}
    (hl : s.sh.lock = some h) : enabled v cfg s h = true := by
  have hh : holds (view v cfg (s.th h)) = true := (L.holder h).mpr hl
  unfold enabled
  unfold view at hh
  cases hc : (s.th h).current v cfg with
  | none => rw [hc] at hh; cases hh
  | some c =>
    rw [hc] at hh
    simp only at hh ⊢
    unfold blockedOn
    cases hr : c.rest with
    | nil => rfl
    | cons st r =>
      rw [hr] at hh
      cases st <;> first | rfl | (simp [holds] at hh)

/-- **no deadlock**: if some thread is unfinished, some thread can take a step (with the lock free: that very
    thread; with the lock held: its holder, which is inside its critical section and never waits) -/
theorem someone_can_move {v : Variant} {cfg : Cfg} {s : State} (L : LockInv v cfg s) (t : Tid)
    (ht : (s.th t).current v cfg ≠ none) : ∃ u, enabled v cfg s u = true := by
  cases hl : s.sh.lock with
  | some h => exact ⟨h, holder_enabled L hl⟩
  | none =>
    refine ⟨t, ?_⟩
    unfold enabled
    cases hc : (s.th t).current v cfg with
    | none => exact absurd hc ht
    | some c =>
      simp only
      unfold blockedOn
      split <;> simp [hl]

/-- an enabled entry changes the state of its thread (it is not a no-op) -/
theorem enabled_current {v : Variant} {cfg : Cfg} {s : State} {t : Tid} (h : enabled v cfg s t = true) :
    (s.th t).current v cfg ≠ none := by
  unfold enabled at h
  intro hc; rw [hc] at h; cases h

end Lomond.Threads
