/-
  Bit-level view of the input of Model/Inflate.lean.

  `Rest inp pos` = the bits of the byte array `inp` from bit position `pos` on (LSB first inside
  every byte).  The readers of the inflater are characterised by what they do when `Rest inp pos`
  starts with a given bit string:

    * `rest_cons`   one bit (the form in which `decode` reads);
    * `bits_spec`   `bits inp pos n` returns `v` when the next `n` bits are `bitsLE n v`;
    * `rest_bytes`  at a byte boundary, a prefix `bitsOf bytes` means the bytes are in `inp`.

  Also: `bitsOf (pack bs) = bs` for whole bytes.
-/
import Lomond.Model.Inflate
import Lomond.Model.DeflEnc
set_option linter.unusedSimpArgs false
set_option linter.unusedVariables false
namespace Lomond.Inflate
open Lomond Lomond.DeflEnc

/-! ### `bitsLE`, `valLE` -/

@[simp] theorem bitsLE_length (n v : Nat) : (bitsLE n v).length = n := by
  induction n generalizing v with
  | zero => rfl
  | succ n ih => simp [bitsLE, ih]

@[simp] theorem bitsMSB_length (n v : Nat) : (bitsMSB n v).length = n := by
  simp [bitsMSB]

theorem bitsLE_getElem? (n v i : Nat) :
    (bitsLE n v)[i]? = if i < n then some (v.testBit i) else none := by
  induction n generalizing v i with
  | zero => simp [bitsLE]
  | succ n ih =>
    cases i with
    | zero => simp [bitsLE, Nat.testBit_zero]
    | succ i =>
      simp only [bitsLE, List.getElem?_cons_succ, ih, Nat.testBit_succ]
      simp only [Nat.add_lt_add_iff_right]

theorem bitsLE_add (a b v : Nat) : bitsLE (a + b) v = bitsLE a v ++ bitsLE b (v / 2 ^ a) := by
  induction a generalizing v with
  | zero => simp [bitsLE]
  | succ a ih =>
    rw [show a + 1 + b = (a + b) + 1 by omega]
    simp only [bitsLE, ih, List.cons_append]
    rw [Nat.div_div_eq_div_mul, Nat.pow_succ, Nat.mul_comm]

theorem valLE_lt (bs : List Bool) : valLE bs < 2 ^ bs.length := by
  induction bs with
  | nil => simp [valLE]
  | cons b r ih =>
    simp only [valLE, List.length_cons, Nat.pow_succ]
    cases b <;> simp <;> omega

theorem bitsLE_valLE (bs : List Bool) : bitsLE bs.length (valLE bs) = bs := by
  induction bs with
  | nil => rfl
  | cons b r ih =>
    simp only [List.length_cons, bitsLE, valLE]
    have h1 : (b.toNat + 2 * valLE r) / 2 = valLE r := by cases b <;> simp <;> omega
    have h2 : decide ((b.toNat + 2 * valLE r) % 2 = 1) = b := by cases b <;> simp <;> omega
    rw [h1, h2, ih]

theorem valLE_bitsLE (n v : Nat) (h : v < 2 ^ n) : valLE (bitsLE n v) = v := by
  induction n generalizing v with
  | zero => simp at h; simp [bitsLE, valLE, h]
  | succ n ih =>
    simp only [bitsLE, valLE]
    rw [ih (v / 2) (by rw [Nat.pow_succ] at h; omega)]
    rcases Nat.mod_two_eq_zero_or_one v with h0 | h0 <;> simp [h0] <;> omega

/-- `bitsLE n` is injective below `2^n` -/
theorem bitsLE_inj (n a b : Nat) (ha : a < 2 ^ n) (hb : b < 2 ^ n) (h : bitsLE n a = bitsLE n b) : a = b := by
  rw [← valLE_bitsLE n a ha, ← valLE_bitsLE n b hb, h]

/-! ### `bitsOf`, `pack` -/

@[simp] theorem bitsOf_nil : bitsOf [] = [] := rfl
theorem bitsOf_cons (x : Nat) (l : Bytes) : bitsOf (x :: l) = bitsLE 8 x ++ bitsOf l := rfl
theorem bitsOf_append (a b : Bytes) : bitsOf (a ++ b) = bitsOf a ++ bitsOf b := by
  simp [bitsOf, List.flatMap_append]

@[simp] theorem bitsOf_length (l : Bytes) : (bitsOf l).length = 8 * l.length := by
  induction l with
  | nil => rfl
  | cons x l ih => rw [bitsOf_cons, List.length_append, bitsLE_length, ih, List.length_cons]; omega

theorem bitsOf_getElem? (l : Bytes) (j : Nat) :
    (bitsOf l)[j]? = if j < 8 * l.length then some ((l.getD (j / 8) 0).testBit (j % 8)) else none := by
  induction l generalizing j with
  | nil => simp
  | cons x l ih =>
    rw [bitsOf_cons, List.getElem?_append, bitsLE_length]
    by_cases hj : j < 8
    · rw [if_pos hj, bitsLE_getElem?, if_pos hj, if_pos (by simp only [List.length_cons]; omega)]
      have h0 : j / 8 = 0 := by omega
      have h1 : j % 8 = j := by omega
      rw [h0, h1]; rfl
    · rw [if_neg hj, ih]
      have h0 : j / 8 = (j - 8) / 8 + 1 := by omega
      have h1 : j % 8 = (j - 8) % 8 := by omega
      rw [h0, h1, List.getD_cons_succ]
      simp only [List.length_cons]
      by_cases h2 : j - 8 < 8 * l.length
      · rw [if_pos h2, if_pos (by omega)]
      · rw [if_neg h2, if_neg (by omega)]

theorem bitsOf_drop (l : Bytes) (i : Nat) : (bitsOf l).drop (8 * i) = bitsOf (l.drop i) := by
  induction l generalizing i with
  | nil => simp
  | cons x l ih =>
    cases i with
    | zero => simp
    | succ i =>
      rw [bitsOf_cons, List.drop_succ_cons, ← ih i]
      rw [show 8 * (i + 1) = (bitsLE 8 x).length + 8 * i by simp; omega, List.drop_length_add_append]

theorem packN_bits (k : Nat) (bs : List Bool) (h : bs.length = 8 * k) : bitsOf (packN k bs) = bs := by
  induction k generalizing bs with
  | zero => simp at h; subst h; rfl
  | succ k ih =>
    simp only [packN, bitsOf_cons]
    rw [ih (bs.drop 8) (by simp; omega)]
    have h8 : (bs.take 8).length = 8 := by simp; omega
    have := bitsLE_valLE (bs.take 8)
    rw [h8] at this
    rw [this, List.take_append_drop]

/-- packing whole bytes loses nothing -/
theorem bitsOf_pack (bs : List Bool) (h : bs.length % 8 = 0) : bitsOf (pack bs) = bs := by
  apply packN_bits
  omega

theorem valLE_lt_256 (bs : List Bool) (h : bs.length ≤ 8) : valLE bs < 256 := by
  have := valLE_lt bs
  have h2 : 2 ^ bs.length ≤ 2 ^ 8 := Nat.pow_le_pow_right (by decide) h
  omega

theorem packN_wf (k : Nat) (bs : List Bool) : ∀ x ∈ packN k bs, x < 256 := by
  induction k generalizing bs with
  | zero => simp [packN]
  | succ k ih =>
    intro x hx
    simp only [packN, List.mem_cons] at hx
    rcases hx with rfl | hx
    · exact valLE_lt_256 _ (by simp; omega)
    · exact ih _ x hx

theorem pack_wf (bs : List Bool) : ∀ x ∈ pack bs, x < 256 := packN_wf _ bs

/-! ### the bits from a position on -/

/-- the bits of `inp` from bit position `pos` on -/
def Rest (inp : Array Nat) (pos : Nat) : List Bool := (bitsOf inp.toList).drop pos

theorem rest_length (inp : Array Nat) (pos : Nat) : (Rest inp pos).length = 8 * inp.size - pos := by
  simp [Rest]

theorem rest_nil_iff (inp : Array Nat) (pos : Nat) : Rest inp pos = [] ↔ ¬ pos < 8 * inp.size := by
  simp [Rest, List.drop_eq_nil_iff]

/-- after reading a prefix the rest is what follows -/
theorem rest_append {inp : Array Nat} {pos : Nat} {a r : List Bool} (h : Rest inp pos = a ++ r) :
    Rest inp (pos + a.length) = r := by
  unfold Rest at h ⊢
  rw [← List.drop_drop, h, List.drop_left]

theorem rest_le {inp : Array Nat} {pos : Nat} {a r : List Bool} (h : Rest inp pos = a ++ r) :
    pos + a.length + r.length = 8 * inp.size ∨ (a = [] ∧ r = []) := by
  have := rest_length inp pos
  rw [h, List.length_append] at this
  by_cases hp : pos < 8 * inp.size
  · left; omega
  · right
    have h0 : a.length + r.length = 0 := by omega
    constructor
    · exact List.length_eq_zero_iff.mp (by omega)
    · exact List.length_eq_zero_iff.mp (by omega)

theorem rest_bound {inp : Array Nat} {pos : Nat} {a r : List Bool} (h : Rest inp pos = a ++ r) (ha : a ≠ []) :
    pos + a.length + r.length = 8 * inp.size := by
  rcases rest_le h with h1 | ⟨h1, _⟩
  · exact h1
  · exact absurd h1 ha

/-- one bit, as `decode` reads it -/
theorem rest_cons {inp : Array Nat} {pos : Nat} {b : Bool} {r : List Bool} (h : Rest inp pos = b :: r) :
    pos < 8 * inp.size ∧ (inp.getD (pos / 8) 0 >>> (pos % 8)) % 2 = b.toNat ∧ Rest inp (pos + 1) = r := by
  have hlt : pos < 8 * inp.size := by
    have := rest_length inp pos
    rw [h] at this; simp at this; omega
  refine ⟨hlt, ?_, rest_append (a := [b]) h⟩
  have hg : (bitsOf inp.toList)[pos]? = some b := by
    have : (Rest inp pos)[0]? = some b := by rw [h]; rfl
    simpa [Rest, List.getElem?_drop] using this
  rw [bitsOf_getElem?, if_pos (by simpa using hlt)] at hg
  simp only [Option.some.injEq] at hg
  rw [← hg, Nat.toNat_testBit, Nat.shiftRight_eq_div_pow]
  simp [Array.getD_eq_getD_getElem?, List.getD_eq_getElem?_getD]

/-- the 24-bit word `bits` reads, bit by bit -/
theorem word_testBit (b0 b1 b2 k : Nat) (h0 : b0 < 256) (h1 : b1 < 256) :
    (b0 + b1 * 256 + b2 * 65536).testBit k =
      if k < 8 then b0.testBit k else if k < 16 then b1.testBit (k - 8) else b2.testBit (k - 16) := by
  have e : b0 + b1 * 256 + b2 * 65536 = 2 ^ 8 * (2 ^ 8 * b2 + b1) + b0 := by omega
  rw [e, Nat.testBit_two_pow_mul_add _ (by omega : b0 < 2 ^ 8)]
  split
  · rfl
  · rename_i hk
    rw [Nat.testBit_two_pow_mul_add _ (by omega : b1 < 2 ^ 8)]
    have : (k - 8 < 8) = (k < 16) := by apply propext; omega
    simp only [this]
    split
    · rfl
    · rw [show k - 8 - 8 = k - 16 by omega]

theorem getD_toList (inp : Array Nat) (i : Nat) : inp.toList.getD i 0 = inp.getD i 0 := by
  simp [Array.getD_eq_getD_getElem?, List.getD_eq_getElem?_getD]

/-- `bits` returns the number whose `n` bits come next -/
theorem bits_spec {inp : Array Nat} (hwf : ∀ x ∈ inp.toList, x < 256) {pos n v : Nat} {r : List Bool}
    (hn : n ≤ 16) (hv : v < 2 ^ n) (hp : pos ≤ 8 * inp.size) (h : Rest inp pos = bitsLE n v ++ r) :
    bits inp pos n = .ok v (pos + n) := by
  have hlen := rest_length inp pos
  rw [h, List.length_append, bitsLE_length] at hlen
  have hle : pos + n ≤ 8 * inp.size := by omega
  simp only [bits, if_pos hle]
  congr 1
  have wf : ∀ i, inp.getD i 0 < 256 := by
    intro i
    rw [Array.getD_eq_getD_getElem?]
    cases hx : inp[i]? with
    | none => simp
    | some x =>
      simp only [Option.getD_some]
      apply hwf
      rw [Array.getElem?_eq_some_iff] at hx
      obtain ⟨hi, rfl⟩ := hx
      simp
  apply Nat.eq_of_testBit_eq
  intro i
  rw [Nat.testBit_mod_two_pow, Nat.testBit_shiftRight]
  by_cases hi : i < n
  · simp only [hi, decide_true, Bool.true_and]
    rw [word_testBit _ _ _ _ (wf _) (wf _)]
    -- the i-th of the next bits
    have hg : (bitsOf inp.toList)[pos + i]? = some (v.testBit i) := by
      have : (Rest inp pos)[i]? = some (v.testBit i) := by
        rw [h, List.getElem?_append_left (by simp; exact hi), bitsLE_getElem?, if_pos hi]
      simpa [Rest, List.getElem?_drop] using this
    rw [bitsOf_getElem?, if_pos (by simp; omega)] at hg
    simp only [Option.some.injEq] at hg
    rw [← hg, getD_toList]
    have hk : pos % 8 + i < 24 := by omega
    by_cases h8 : pos % 8 + i < 8
    · rw [if_pos h8]
      rw [show (pos + i) / 8 = pos / 8 by omega, show (pos + i) % 8 = pos % 8 + i by omega]
    · rw [if_neg h8]
      by_cases h16 : pos % 8 + i < 16
      · rw [if_pos h16]
        rw [show (pos + i) / 8 = pos / 8 + 1 by omega, show (pos + i) % 8 = pos % 8 + i - 8 by omega]
      · rw [if_neg h16]
        rw [show (pos + i) / 8 = pos / 8 + 2 by omega, show (pos + i) % 8 = pos % 8 + i - 16 by omega]
  · simp only [hi, decide_false, Bool.false_and]
    symm
    apply Nat.testBit_lt_two_pow
    exact Nat.lt_of_lt_of_le hv (Nat.pow_le_pow_right (by decide) (by omega))

/-! ### bytes at a byte boundary -/

/-- bytes are determined by their bits -/
theorem bitsOf_prefix (a b : Bytes) (r : List Bool) (ha : ∀ x ∈ a, x < 256) (hb : ∀ x ∈ b, x < 256)
    (h : bitsOf a = bitsOf b ++ r) : ∃ tl, a = b ++ tl ∧ bitsOf tl = r := by
  induction b generalizing a with
  | nil => exact ⟨a, rfl, by simpa using h⟩
  | cons y b ih =>
    cases a with
    | nil =>
      have := congrArg List.length h
      simp [bitsOf_cons] at this
      omega
    | cons x a =>
      rw [bitsOf_cons, bitsOf_cons, List.append_assoc] at h
      have h1 := List.append_inj h (by simp)
      have hxy : x = y := bitsLE_inj 8 x y (ha x (by simp)) (hb y (by simp)) h1.1
      obtain ⟨tl, h2, h3⟩ := ih a (fun z hz => ha z (by simp [hz])) (fun z hz => hb z (by simp [hz])) h1.2
      exact ⟨tl, by rw [hxy, h2]; rfl, h3⟩

/-- at a byte boundary: if the next bits are those of `bytes`, the bytes are in the input -/
theorem rest_bytes {inp : Array Nat} (hwf : ∀ x ∈ inp.toList, x < 256) {i : Nat} {bytes : Bytes} {r : List Bool}
    (hb : ∀ x ∈ bytes, x < 256) (h : Rest inp (8 * i) = bitsOf bytes ++ r) :
    ∃ tl, inp.toList.drop i = bytes ++ tl ∧ bitsOf tl = r := by
  unfold Rest at h
  rw [bitsOf_drop] at h
  exact bitsOf_prefix _ _ _ (fun x hx => hwf x (List.mem_of_mem_drop hx)) hb h

end Lomond.Inflate
