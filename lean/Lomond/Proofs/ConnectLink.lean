/-
  Helper lemmas for the link between the connection-phase models (Model/Connect.lean,
  Model/Proxy.lean) and the core model (Model/ConnectLink.lean):

  * `Shut`     while no socket exists the library writes nothing: the application's calls only
               leave their results in the trace;
  * `Grow`     the trace only grows, also across `run()`'s `finally`;
  * `run_anatomy`   the trace of `run()` cut where `_connect()` is called: what precedes it
               (`Connecting` and the application's reaction) and how what follows it begins
               (`ConnectFail`, or the upgrade request and `Connected`);
  * `connectOutcome_*`   the connect outcome in terms of the two models' own success criteria;
  * `composed_*`  the shape of the composed trace.
-/
import Lomond.Model.ConnectLink
import Lomond.Proofs.RunAll
import Lomond.Proofs.SelFail
import Lomond.Proofs.EnvIrrel
import Lomond.Proofs.Proxy
import Lomond.Proofs.Connect
set_option linter.unusedSimpArgs false
set_option linter.unusedVariables false
namespace Lomond.ConnectLink
open Lomond Lomond.Http Lomond.Core Lomond.Core.Monitor

/-! ### while there is no socket, nothing is written -/

/-- the recorded result of an application call -/
def isRes : Obs → Bool
  | .res _ => true
  | _ => false

/-- from a state without a socket: still no socket, no `sendall` was counted, and the trace grew by
    results of application calls only -/
def Shut (s s' : Sys) : Prop :=
  s.sockOpen = false →
    s'.sockOpen = false ∧ s'.writeCtr = s.writeCtr ∧ ∃ l, s'.trace = l ++ s.trace ∧ ∀ o ∈ l, isRes o = true

theorem shut_po : PO Shut where
  refl s := fun h => ⟨h, rfl, [], rfl, fun _ hm => by cases hm⟩
  trans := by
    intro a b c h1 h2 ha
    obtain ⟨hb, w1, l1, e1, n1⟩ := h1 ha
    obtain ⟨hc, w2, l2, e2, n2⟩ := h2 hb
    refine ⟨hc, w2.trans w1, l2 ++ l1, by rw [e2, e1, List.append_assoc], ?_⟩
    intro o ho
    rcases List.mem_append.mp ho with h | h
    · exact n2 o h
    · exact n1 o h

/-- leaf tactic for `Shut s s'` with an explicit `s'` whose trace is that of `s` -/
macro "shut_leaf" : tactic =>
  `(tactic| ((try simp only [Res.state_ok, Res.state_err])
             intro h
             first
              | exact ⟨h, rfl, [], rfl, fun _ hm => by cases hm⟩
              | (exfalso; simp_all; done)))

theorem shut_closeSocket : Spec Shut closeSocket := by
  intro s; unfold closeSocket; splits <;> shut_leaf

theorem shut_write (d : Bytes) (z : Option (Nat × Bytes)) : Spec Shut (write d z) := by
  intro s; unfold write; splits <;> shut_leaf

theorem shut_sendFrame (op : Nat) (pl : Bytes) (c : Option Bytes) : Spec Shut (sendFrame op pl c) := by
  intro s; unfold sendFrame
  simp only
  splits
  all_goals first
    | shut_leaf
    | exact shut_po.trans (by shut_leaf) (shut_write _ _ _)

theorem shut_wsClose (c : Option Nat) (r : Arg) : Spec Shut (wsClose c r) := by
  intro s; unfold wsClose
  splits
  all_goals first
    | shut_leaf
    | (rename_i h; have := (shut_sendFrame _ _ _).ok h; exact shut_po.trans this (by shut_leaf))
    | (rename_i h; have := (shut_sendFrame _ _ _).err h; exact this)

theorem shut_sendData (op : Nat) (pl : Bytes) (c : Bool) : Spec Shut (sendData op pl c) := by
  intro s; unfold sendData; split <;> exact shut_sendFrame _ _ _ s

theorem shut_logRes {m : M ActRes} (h : Spec Shut m) : Spec Shut (logRes m) := by
  unfold logRes
  refine spec_bind shut_po h (fun r => ?_)
  intro s hs
  exact ⟨hs, rfl, [.res r], rfl, fun o ho => by simp only [List.mem_singleton] at ho; subst ho; rfl⟩

theorem shut_doAct (a : Act) : Spec Shut (doAct a) := by
  unfold doAct
  split
  all_goals first
    | (apply shut_logRes
       first
        | exact spec_pure shut_po _
        | exact shut_sendData _ _ _
        | exact shut_wsClose _ _
        | exact spec_bind shut_po shut_closeSocket (fun _ => spec_pure shut_po _)
        | (split
           · exact spec_pure shut_po _
           · first | exact shut_sendData _ _ _ | exact shut_sendFrame _ _ _))
    | (intro s; shut_leaf)

theorem shut_doActs (as : List Act) : Spec Shut (doActs as) := by
  induction as with
  | nil => exact spec_pure shut_po ()
  | cons a r ih => unfold doActs; exact spec_bind shut_po (shut_doAct a) (fun _ => ih)

/-- `yield e` while no socket exists: the event, then results of the application's calls -/
theorem yieldEv_shut (e : Event) (s : Sys) (hs : s.sockOpen = false) :
    (yieldEv e s).state.sockOpen = false ∧ (yieldEv e s).state.writeCtr = s.writeCtr ∧
    ∃ l, (yieldEv e s).state.trace = l ++ .ev e :: s.trace ∧ ∀ o ∈ l, isRes o = true := by
  rw [yieldEv_eq]
  exact shut_doActs _ (pushEv e s) hs

/-! ### the trace only grows -/

def Grow (s s' : Sys) : Prop := ∃ l, s'.trace = l ++ s.trace

theorem grow_po : PO Grow where
  refl _ := ⟨[], rfl⟩
  trans := by
    rintro a b c ⟨l1, e1⟩ ⟨l2, e2⟩
    exact ⟨l2 ++ l1, by rw [e2, e1, List.append_assoc]⟩

theorem grow_of_step {m : M α} (h : Spec Step m) : Spec Grow m := fun s => (h s).traceExt

theorem grow_selClose : Spec Grow selClose := by
  intro s; unfold selClose; split
  · exact ⟨[.selClose], rfl⟩
  · exact ⟨[], rfl⟩

theorem grow_onLoopEnd (r : Option Exn) : Spec Grow (onLoopEnd r) := by
  unfold onLoopEnd
  split
  all_goals first
    | exact spec_bind grow_po (grow_of_step step_closeSocket) (fun _ => grow_of_step (step_yieldEv _))
    | exact spec_throwE grow_po _

theorem grow_runFinally (x : Exn) : Spec Grow (runFinally x) := by
  unfold runFinally
  refine spec_getS_bind grow_po (fun s => spec_bind grow_po ?_ (fun _ =>
    spec_bind grow_po grow_selClose (fun _ => spec_throwE grow_po _)))
  split
  · exact grow_of_step step_closeSocket
  · exact spec_pure grow_po _

theorem grow_runLoopL {l : M Unit} (hl : Spec Grow l) : Spec Grow (runLoopL l) := by
  unfold runLoopL
  refine spec_tryC grow_po (spec_bind grow_po ?_ (fun _ => grow_selClose)) grow_runFinally
  unfold runBodyL
  exact spec_bind grow_po (spec_tryC grow_po (spec_bind grow_po hl (fun _ => spec_pure grow_po _))
    (fun _ => spec_pure grow_po _)) (fun r => grow_onLoopEnd r)

/-- `yield Connected`: the event is the first thing added to the trace -/
theorem yieldConnected_trace (proxy : Bool) (s : Sys) :
    ∃ l, (yieldConnected proxy s).state.trace = l ++ .ev (.connected proxy) :: s.trace := by
  have hy : ∃ l, (yieldEv (.connected proxy) s).state.trace = l ++ .ev (.connected proxy) :: s.trace := by
    rw [yieldEv_eq]; exact (step_doActs _ (pushEv (.connected proxy) s)).traceExt
  unfold yieldConnected
  rw [bind_ok (show getS s = .ok s s from rfl)]
  split
  · cases hm : yieldEv (.connected proxy) s with
    | ok a s1 => rw [tryC_ok hm]; rw [hm] at hy; exact hy
    | err x s1 =>
      rw [tryC_err hm]; rw [hm] at hy
      obtain ⟨l, e⟩ := hy
      obtain ⟨s2, h2⟩ := closeSocket_ok s1
      obtain ⟨l2, e2⟩ := (step_closeSocket.ok h2).traceExt
      rw [bind_ok h2]
      exact ⟨l2 ++ l, by show s2.trace = _; rw [e2, show s1.trace = _ from e, List.append_assoc]⟩
  · exact hy

/-! ### the trace of `run()`, cut where `_connect()` is called -/

/-- how the part of the trace (newest first) that follows `_connect()` begins when `_connect()`
    returned a socket: the upgrade request and `Connected`; or the failed request, the socket close
    and `ConnectFail`; or — the application had already called `close()` at `Connecting`, so that
    `session.write` refuses — the socket close and `ConnectFail` with nothing written at all. -/
inductive AfterSock (req : Bytes) (proxy : Bool) (wf : Bool) (busy fin : Prop) : List Obs → Prop
  | connected (X : List Obs) : wf = false →
      AfterSock req proxy wf busy fin (X ++ [.ev (.connected proxy), .wr req])
  | writeFailed (l : List Obs) : wf = true → (∀ o ∈ l, isRes o = true) → fin →
      AfterSock req proxy wf busy fin (l ++ [.ev (.connectFail "request-failed"), .sockClose, .wrFail req])
  | refused (l : List Obs) : busy → (∀ o ∈ l, isRes o = true) → fin →
      AfterSock req proxy wf busy fin (l ++ [.ev (.connectFail "request-failed"), .sockClose])

/-- the connection is over without a socket: `run()` returned, or the application abandoned it -/
def Settled (r : Res Unit) : Prop := r.state.sockOpen = false ∧ ∀ x s', r = .err x s' → x = .genExit

/-- the part of the trace that follows `_connect()` -/
def AfterConnect (c : Cfg) (k : Nat) (busy fin : Prop) (t : List Obs) : Prop :=
  match c.connect with
  | .socketFail => (∃ l, t = l ++ [.ev (.connectFail "connect-failed")] ∧ ∀ o ∈ l, isRes o = true) ∧ fin
  | .otherFail => (∃ l, t = l ++ [.ev (.connectFail "connect-failed")] ∧ ∀ o ∈ l, isRes o = true) ∧ fin
  | .ok p => AfterSock c.request p (c.writeFails k) busy fin t
  | .selFail p => AfterSock c.request p (c.writeFails k) busy fin t

theorem yieldEv_settled (e : Event) (s : Sys) (hs : s.sockOpen = false) : Settled (yieldEv e s) :=
  ⟨(yieldEv_shut e s hs).1, fun _ _ h => yieldEv_err_genExit h⟩

theorem afterConnectL_trace {l : M Unit} (hl : Spec Grow l) (proxy sel : Bool) (s : Sys)
    (hs : s.sockOpen = false) :
    ∃ t, (afterConnectL l proxy sel s).state.trace = t ++ s.trace ∧
      AfterSock s.cfg.request proxy (s.cfg.writeFails s.writeCtr) (s.closed = true ∨ s.closing = true)
        (Settled (afterConnectL l proxy sel s)) t := by
  unfold afterConnectL
  rw [modS_bind, bind_ok (show getS { s with sockOpen := true } = .ok _ _ from rfl)]
  -- the three outcomes of `session.write(request)`
  have hw : (s.closed = true ∧ write s.cfg.request none { s with sockOpen := true } = .ok .wsClosed { s with sockOpen := true }) ∨
      (s.closing = true ∧ write s.cfg.request none { s with sockOpen := true } = .ok .wsClosing { s with sockOpen := true }) ∨
      (s.cfg.writeFails s.writeCtr = true ∧
        write s.cfg.request none { s with sockOpen := true } =
          .ok .transportFail { s with sockOpen := true, writeCtr := s.writeCtr + 1, trace := .wrFail s.cfg.request :: s.trace }) ∨
      (s.cfg.writeFails s.writeCtr = false ∧
        write s.cfg.request none { s with sockOpen := true } =
          .ok .ok { s with sockOpen := true, writeCtr := s.writeCtr + 1, trace := .wr s.cfg.request :: s.trace }) := by
    unfold write
    simp only []
    by_cases h1 : s.closed = true
    · left; simp [h1]
    · by_cases h2 : s.closing = true
      · right; left; simp [h1, h2]
      · cases h3 : s.cfg.writeFails s.writeCtr
        · right; right; right; simp [h1, h2, h3]
        · right; right; left; simp [h1, h2, h3]
  -- after a refused or failed write: close the socket, `ConnectFail`
  have hfail : ∀ s2 : Sys, s2.sockOpen = true →
      ∃ l, ((do closeSocket; yieldEv (.connectFail "request-failed") : M Unit) s2).state.trace =
        l ++ .ev (.connectFail "request-failed") :: .sockClose :: s2.trace ∧ (∀ o ∈ l, isRes o = true) ∧
        Settled ((do closeSocket; yieldEv (.connectFail "request-failed") : M Unit) s2) := by
    intro s2 h2
    have hc : closeSocket s2 = .ok () { s2 with sockOpen := false, trace := .sockClose :: s2.trace } := by
      unfold closeSocket; rw [if_pos h2]
    rw [bind_ok hc]
    obtain ⟨_, _, l, e, n⟩ := yieldEv_shut (.connectFail "request-failed")
      { s2 with sockOpen := false, trace := .sockClose :: s2.trace } rfl
    exact ⟨l, e, n, yieldEv_settled _ _ rfl⟩
  rcases hw with ⟨hb, h⟩ | ⟨hb, h⟩ | ⟨hf, h⟩ | ⟨hf, h⟩
  · rw [bind_ok h, if_pos (by decide)]
    obtain ⟨l1, e, n, fin⟩ := hfail { s with sockOpen := true } rfl
    exact ⟨_, by rw [e]; exact (List.append_assoc l1 [_, _] s.trace).symm ▸ rfl, .refused l1 (Or.inl hb) n fin⟩
  · rw [bind_ok h, if_pos (by decide)]
    obtain ⟨l1, e, n, fin⟩ := hfail { s with sockOpen := true } rfl
    exact ⟨_, by rw [e]; exact (List.append_assoc l1 [_, _] s.trace).symm ▸ rfl, .refused l1 (Or.inr hb) n fin⟩
  · rw [bind_ok h, if_pos (by decide)]
    obtain ⟨l1, e, n, fin⟩ := hfail { s with sockOpen := true, writeCtr := s.writeCtr + 1, trace := .wrFail s.cfg.request :: s.trace } rfl
    exact ⟨_, by rw [e]; exact (List.append_assoc l1 [_, _, _] s.trace).symm ▸ rfl, .writeFailed l1 hf n fin⟩
  · rw [bind_ok h, if_neg (by decide)]
    generalize hs2 : ({ s with sockOpen := true, writeCtr := s.writeCtr + 1, trace := .wr s.cfg.request :: s.trace } : Sys) = s2
    have ht2 : s2.trace = .wr s.cfg.request :: s.trace := by rw [← hs2]
    obtain ⟨l1, e1⟩ := yieldConnected_trace proxy s2
    cases hy : yieldConnected proxy s2 with
    | err x s3 =>
      rw [bind_err hy]; rw [hy] at e1
      exact ⟨l1 ++ [.ev (.connected proxy), .wr s.cfg.request],
        by show s3.trace = _; rw [show s3.trace = _ from e1, ht2]; simp, .connected l1 hf⟩
    | ok u s3 =>
      rw [bind_ok hy, modS_bind]; rw [hy] at e1
      obtain ⟨l2, e2⟩ := grow_runLoopL hl { s3 with selOpen := sel }
      refine ⟨(l2 ++ l1) ++ [.ev (.connected proxy), .wr s.cfg.request], ?_, .connected _ hf⟩
      rw [e2]; show l2 ++ s3.trace = _
      rw [show s3.trace = _ from e1, ht2]; simp

/-- **`run()` cut at `_connect()`**, from any state without a socket: either the application abandons
    the iterator at `Connecting` — then that is all that happens —, or the trace is: what was there,
    `Connecting`, results of the application's calls, and then (`t`) what the connect outcome says. -/
theorem run_anatomy (s : Sys) (hs : s.sockOpen = false) :
    (∃ x s1, yieldEv .connecting s = .err x s1 ∧ run s = .err x s1 ∧
      ∃ l, s1.trace = l ++ .ev .connecting :: s.trace ∧ ∀ o ∈ l, isRes o = true) ∨
    (∃ s1, yieldEv .connecting s = .ok () s1 ∧
      (∃ l, s1.trace = l ++ .ev .connecting :: s.trace ∧ ∀ o ∈ l, isRes o = true) ∧
      ∃ t, (run s).state.trace = t ++ s1.trace ∧
        AfterConnect s.cfg s.writeCtr (s1.closed = true ∨ s1.closing = true) (Settled (run s)) t) := by
  obtain ⟨hso, hwc, l0, e0, n0⟩ := yieldEv_shut .connecting s hs
  have st := step_yieldEv .connecting s
  cases hy : yieldEv .connecting s with
  | err x s1 =>
    rw [hy] at e0
    exact Or.inl ⟨x, s1, rfl, by unfold run; rw [bind_err hy], l0, e0, n0⟩
  | ok u s1 =>
    rw [hy] at e0 hso hwc st; simp only [Res.state_ok] at e0 hso hwc st
    refine Or.inr ⟨s1, rfl, ⟨l0, e0, n0⟩, ?_⟩
    have hcfg : s1.cfg = s.cfg := st.cfg
    rw [run_eq_runL]
    unfold runL
    rw [bind_ok hy, bind_ok (show getS s1 = .ok s1 s1 from rfl)]
    unfold AfterConnect
    rw [← hcfg, ← hwc]
    cases hc : s1.cfg.connect with
    | socketFail =>
      simp only []
      obtain ⟨_, _, l, e, n⟩ := yieldEv_shut (.connectFail "connect-failed") s1 hso
      exact ⟨_, by rw [e]; exact (List.append_assoc l [_] s1.trace).symm ▸ rfl, ⟨l, rfl, n⟩, yieldEv_settled _ _ hso⟩
    | otherFail =>
      simp only []
      obtain ⟨_, _, l, e, n⟩ := yieldEv_shut (.connectFail "connect-failed") s1 hso
      exact ⟨_, by rw [e]; exact (List.append_assoc l [_] s1.trace).symm ▸ rfl, ⟨l, rfl, n⟩, yieldEv_settled _ _ hso⟩
    | ok p =>
      simp only []
      exact afterConnectL_trace (grow_of_step (step_loop _)) p true s1 hso
    | selFail p =>
      simp only []
      exact afterConnectL_trace (spec_throwE grow_po _) p false s1 hso

/-! ### `runAll` in terms of `run` -/

/-- what `runAll` adds to the trace of `run()`: nothing, the `with ws:` block's `session.close()`, or
    the end-of-script marker -/
def Epilogue (l : List Obs) : Prop := l = [] ∨ l = [.sockClose] ∨ l = [.incomplete]

theorem closeSocket_trace (s : Sys) :
    ∃ l, (match closeSocket s with | .ok _ s' => s' | .err _ s' => s').trace = l ++ s.trace ∧ Epilogue l ∧
      (s.sockOpen = false → l = []) := by
  by_cases h : s.sockOpen = true
  · refine ⟨[.sockClose], ?_, Or.inr (Or.inl rfl), fun h' => by rw [h] at h'; cases h'⟩
    unfold closeSocket; rw [if_pos h]; rfl
  · refine ⟨[], ?_, Or.inl rfl, fun _ => rfl⟩
    unfold closeSocket; rw [if_neg h]; rfl

theorem runAll_trace (cfg : Cfg) (react : React) (env : List EnvStep) :
    ∃ l, (runAll cfg react env).trace = l ++ (run (initSys cfg react env)).state.trace ∧ Epilogue l ∧
      ((run (initSys cfg react env)).state.sockOpen = false →
        (∃ s, run (initSys cfg react env) = .err .genExit s) → l = []) := by
  show ∃ l, (match run (initSys cfg react env) with
      | .ok _ s => s
      | .err .genExit s => if s.abandonedWith then (match closeSocket s with | .ok _ s' => s' | .err _ s' => s') else s
      | .err (.outer .genExit) s => if s.abandonedWith then (match closeSocket s with | .ok _ s' => s' | .err _ s' => s') else s
      | .err .scriptEnd s => { s with trace := .incomplete :: s.trace }
      | .err _ s => { s with trace := .incomplete :: s.trace }).trace = _ ∧ _
  split
  · rename_i h; rw [h]; exact ⟨[], rfl, Or.inl rfl, fun _ _ => rfl⟩
  · rename_i s h; rw [h]
    split
    · obtain ⟨l, e, ep, h0⟩ := closeSocket_trace s
      exact ⟨l, e, ep, fun hs _ => h0 hs⟩
    · exact ⟨[], rfl, Or.inl rfl, fun _ _ => rfl⟩
  · rename_i s h; rw [h]
    split
    · obtain ⟨l, e, ep, h0⟩ := closeSocket_trace s
      exact ⟨l, e, ep, fun _ ⟨s', hs'⟩ => by cases hs'⟩
    · exact ⟨[], rfl, Or.inl rfl, fun _ _ => rfl⟩
  · rename_i s h; rw [h]
    exact ⟨[.incomplete], rfl, Or.inr (Or.inr rfl), fun _ ⟨s', hs'⟩ => by cases hs'⟩
  · rename_i x s h1 h2 h3 h4; rw [h4]
    exact ⟨[.incomplete], rfl, Or.inr (Or.inr rfl), fun _ ⟨s', hs'⟩ => by cases hs'; exact absurd rfl h1⟩

/-! ### `_connect_proxy`: log and result, case by case -/

open Lomond.Proxy in
/-- the log and the result of `_connect_proxy`, case by case (cf. `Proxy.RunShape`) -/
inductive ProxyShape (c : Proxy.Cfg) (e : Proxy.Env) (purl : Str) : List Proxy.Io × Except Proxy.FailKind Bool → Prop
  | badUrl : parseUrl purl = none → ProxyShape c e purl ([], .error .badUrl)
  | badPort (u : Url) : parseUrl purl = some u → u.port = none → ProxyShape c e purl ([], .error .badPort)
  | noConnect (u : Url) (p : Option Nat) : parseUrl purl = some u → u.port = some p → e.connectOk = false →
      ProxyShape c e purl ([proxyAddr u p], .error .proxyConnect)
  | noHost (u : Url) (p : Option Nat) : parseUrl purl = some u → u.port = some p → e.connectOk = true →
      c.target.host = none → ProxyShape c e purl ([proxyAddr u p], .error .noHost)
  | writeErr (u : Url) (p : Option Nat) (req : Bytes) : parseUrl purl = some u → u.port = some p →
      e.connectOk = true → connectRequestOf c purl = some req → e.writeFails 0 = true →
      ProxyShape c e purl ([proxyAddr u p, .write false req false], .error .writeErr)
  | readFail (u : Url) (p : Option Nat) (req : Bytes) (k : FailKind) : parseUrl purl = some u → u.port = some p →
      e.connectOk = true → connectRequestOf c purl = some req → e.writeFails 0 = false →
      (readLoop e.reads []).2 = .error k →
      ProxyShape c e purl ([proxyAddr u p, .write false req true] ++ (readLoop e.reads []).1, .error k)
  | wrapFail (u : Url) (p : Option Nat) (req : Bytes) : parseUrl purl = some u → u.port = some p →
      e.connectOk = true → connectRequestOf c purl = some req → e.writeFails 0 = false →
      (readLoop e.reads []).2 = .ok () → c.target.secure = true → e.wrapOk = false →
      ProxyShape c e purl ([proxyAddr u p, .write false req true] ++ (readLoop e.reads []).1 ++
        [.wrap c.target.host false], .error .wrap)
  | up (u : Url) (p : Option Nat) (req : Bytes) : parseUrl purl = some u → u.port = some p →
      e.connectOk = true → connectRequestOf c purl = some req → e.writeFails 0 = false →
      (readLoop e.reads []).2 = .ok () → (c.target.secure = true → e.wrapOk = true) →
      ProxyShape c e purl ([proxyAddr u p, .write false req true] ++ (readLoop e.reads []).1 ++
        (if c.target.secure then [.wrap c.target.host true] else []), .ok c.target.secure)

open Lomond.Proxy in
theorem connectProxy_shape (c : Proxy.Cfg) (e : Proxy.Env) (purl : Str) :
    ProxyShape c e purl (connectProxy c e purl) := by
  cases hu : parseUrl purl with
  | none =>
    have := ProxyShape.badUrl (c := c) (e := e) hu
    simpa [connectProxy, hu] using this
  | some u =>
    cases hp : u.port with
    | none =>
      have := ProxyShape.badPort (c := c) (e := e) u hu hp
      simpa [connectProxy, hu, hp] using this
    | some p =>
      cases hconn : e.connectOk with
      | false =>
        have := ProxyShape.noConnect (c := c) u p hu hp hconn
        simpa [connectProxy, hu, hp, hconn, proxyAddr] using this
      | true =>
        cases hr : buildConnect c.target.host c.target.port u.username u.password with
        | none =>
          have := ProxyShape.noHost u p hu hp hconn ((buildConnect_none_iff _ _ _ _).mp hr)
          simpa [connectProxy, hu, hp, hconn, hr, proxyAddr] using this
        | some req =>
          have hreq : connectRequestOf c purl = some req := by simp [connectRequestOf, hu, hr]
          cases hw : e.writeFails 0 with
          | true =>
            have := ProxyShape.writeErr u p req hu hp hconn hreq hw
            simpa [connectProxy, hu, hp, hconn, hr, hw, proxyAddr] using this
          | false =>
            cases hl : (readLoop e.reads []).2 with
            | error k =>
              have := ProxyShape.readFail u p req k hu hp hconn hreq hw hl
              simpa [connectProxy, hu, hp, hconn, hr, hw, hl, proxyAddr] using this
            | ok v =>
              cases v
              cases hs : c.target.secure with
              | false =>
                have := ProxyShape.up u p req hu hp hconn hreq hw hl (fun h => by rw [hs] at h; cases h)
                simpa [connectProxy, hu, hp, hconn, hr, hw, hl, proxyAddr, hs] using this
              | true =>
                cases hwr : e.wrapOk with
                | false =>
                  have := ProxyShape.wrapFail u p req hu hp hconn hreq hw hl hs hwr
                  simpa [connectProxy, hu, hp, hconn, hr, hw, hl, proxyAddr, hs, hwr] using this
                | true =>
                  have := ProxyShape.up u p req hu hp hconn hreq hw hl (fun _ => hwr)
                  simpa [connectProxy, hu, hp, hconn, hr, hw, hl, proxyAddr, hs, hwr] using this

open Lomond.Proxy in
theorem stopKind_cases : ∀ reads : List ReadOutcome,
    stopKind reads = .parseEof ∨ stopKind reads = .readErr ∨ stopKind reads = .timeout
  | [] => Or.inr (Or.inr rfl)
  | .err :: _ => Or.inr (Or.inl rfl)
  | .timeout :: _ => Or.inr (Or.inr rfl)
  | .data d :: r => by
    unfold stopKind
    split
    · exact Or.inl rfl
    · exact stopKind_cases r

open Lomond.Proxy in
/-- the read loop never reports the failure kinds of the other steps -/
theorem readLoop_error_kind (reads : List ReadOutcome) (k : FailKind) (h : (readLoop reads []).2 = .error k) :
    k ≠ .proxyConnect := by
  rw [readLoop_result reads [] findSep_nil_proxySep (Nat.zero_le _)] at h
  intro hk; subst hk
  cases hv : verdict ([] ++ rxStop reads) <;> rw [hv] at h <;> simp only [resultOf] at h
  · rcases stopKind_cases reads with e | e | e <;> rw [e] at h <;> cases h
  all_goals cases h

/-! ### the connect outcome in terms of the two models -/

/-- `_connect()` returned a socket -/
def Connects (i : Inputs) : Prop := ∃ q, connectResult i = .sock q

open Lomond.Proxy in
/-- with a proxy chosen, `_connect()` returns a socket exactly when the tunnel comes up; it raises
    `_SocketFail` exactly when the proxy cannot be reached (a usable proxy URL, `_connect_sock` fails);
    every other failure is another exception -/
theorem connectResult_proxy (i : Inputs) (purl : Str) (hc : proxyChoice i.ws = some purl) :
    (connectResult i = .sock (some purl) ↔ TunnelUp i.ws (proxyEnv i) purl) ∧
    (∀ q, connectResult i = .sock q → q = some purl) ∧
    (connectResult i = .socketFail ↔
      (∃ u p, parseUrl purl = some u ∧ u.port = some p) ∧ sockOk i = false) := by
  have hs := connectProxy_shape i.ws (proxyEnv i) purl
  have hres : connectResult i = (match (connectProxy i.ws (proxyEnv i) purl).2 with
      | .ok _ => .sock (some purl)
      | .error .proxyConnect => .socketFail
      | .error _ => .otherFail) := by
    unfold connectResult; rw [hc]; rfl
  rw [hres]
  generalize connectProxy i.ws (proxyEnv i) purl = r at hs
  have hco : (proxyEnv i).connectOk = sockOk i := rfl
  cases hs with
  | badUrl hu =>
    refine ⟨⟨fun h => (by cases h), fun h => ?_⟩, fun q h => (by cases h), ⟨fun h => (by cases h), fun ⟨⟨u, p, h1, _⟩, _⟩ => ?_⟩⟩
    · obtain ⟨u, p, h1, _⟩ := h.url; rw [hu] at h1; cases h1
    · rw [hu] at h1; cases h1
  | badPort u hu hp =>
    refine ⟨⟨fun h => (by cases h), fun h => ?_⟩, fun q h => (by cases h), ⟨fun h => (by cases h), fun ⟨⟨u', p, h1, h2⟩, _⟩ => ?_⟩⟩
    · obtain ⟨u', p, h1, h2⟩ := h.url; rw [hu] at h1; cases h1; rw [hp] at h2; cases h2
    · rw [hu] at h1; cases h1; rw [hp] at h2; cases h2
  | noConnect u p hu hp hconn =>
    refine ⟨⟨fun h => (by cases h), fun h => ?_⟩, fun q h => (by cases h), ⟨fun _ => ⟨⟨u, p, hu, hp⟩, hco ▸ hconn⟩, fun _ => rfl⟩⟩
    have := h.connect; rw [hconn] at this; cases this
  | noHost u p hu hp hconn hh =>
    refine ⟨⟨fun h => (by cases h), fun h => absurd hh h.host⟩, fun q h => (by cases h), ⟨fun h => (by cases h), fun ⟨_, h2⟩ => ?_⟩⟩
    rw [← hco, hconn] at h2; cases h2
  | writeErr u p req hu hp hconn hreq hw =>
    refine ⟨⟨fun h => (by cases h), fun h => ?_⟩, fun q h => (by cases h), ⟨fun h => (by cases h), fun ⟨_, h2⟩ => ?_⟩⟩
    · have := h.sent; rw [hw] at this; cases this
    · rw [← hco, hconn] at h2; cases h2
  | readFail u p req k hu hp hconn hreq hw hl =>
    have hk := readLoop_error_kind _ k hl
    have hnot : ¬ Reply200 (rxStop i.reads) := fun h => by
      have := (readLoop_ok_iff i.reads).mpr h
      rw [show (proxyEnv i).reads = i.reads from rfl] at hl
      rw [this] at hl; cases hl
    have hm : (match (Except.error k : Except FailKind Bool) with
        | .ok _ => ConnectResult.sock (some purl)
        | .error .proxyConnect => .socketFail
        | .error _ => .otherFail) = .otherFail := by
      cases k <;> first | rfl | exact absurd rfl hk
    simp only [hm]
    refine ⟨⟨fun h => (by cases h), fun h => absurd h.reply hnot⟩, fun q h => (by cases h), ⟨fun h => (by cases h), fun ⟨_, h2⟩ => ?_⟩⟩
    rw [← hco, hconn] at h2; cases h2
  | wrapFail u p req hu hp hconn hreq hw hl hs hwr =>
    refine ⟨⟨fun h => (by cases h), fun h => ?_⟩, fun q h => (by cases h), ⟨fun h => (by cases h), fun ⟨_, h2⟩ => ?_⟩⟩
    · have := h.tls hs; rw [hwr] at this; cases this
    · rw [← hco, hconn] at h2; cases h2
  | up u p req hu hp hconn hreq hw hl htls =>
    refine ⟨⟨fun _ => ?_, fun _ => rfl⟩, fun q h => (by cases h; rfl), ⟨fun h => (by cases h), fun ⟨_, h2⟩ => ?_⟩⟩
    · refine ⟨⟨u, p, hu, hp⟩, ?_, hconn, hw, (readLoop_ok_iff _).mp hl, htls⟩
      intro hh
      simp [connectRequestOf, hu, hh, buildConnect] at hreq
    · rw [← hco, hconn] at h2; cases h2

/-- a direct connection: `_connect()` returns a socket exactly when `_connect_sock` does, and the only
    failure is `_SocketFail` -/
theorem connectResult_direct (i : Inputs) (hc : Proxy.proxyChoice i.ws = none) :
    connectResult i = if sockOk i then .sock none else .socketFail := by
  unfold connectResult; rw [hc]

theorem sockOk_iff (i : Inputs) : sockOk i = true ↔ (Connect.connectSock i.gai).1 ≠ .fail := by
  unfold sockOk
  cases (Connect.connectSock i.gai).1 <;> simp

theorem connectOutcome_cases (i : Inputs) :
    (∃ q, connectResult i = .sock q ∧
      connectOutcome i = (if i.selOk then .ok q.isSome else .selFail q.isSome)) ∨
    (¬ Connects i ∧ (connectOutcome i = .socketFail ∨ connectOutcome i = .otherFail)) := by
  unfold connectOutcome Connects
  cases h : connectResult i with
  | sock q => exact Or.inl ⟨q, rfl, rfl⟩
  | socketFail => exact Or.inr ⟨fun ⟨q, hq⟩ => (by cases hq), Or.inl rfl⟩
  | otherFail => exact Or.inr ⟨fun ⟨q, hq⟩ => (by cases hq), Or.inr rfl⟩

/-! ### the shape of the composed trace -/

/-- the application stops iterating at `Connecting` -/
def StopsAtConnecting (react : React) : Prop := ∃ w, Act.abandon w ∈ react [.connecting]

theorem doActs_ok_no_abandon (as : List Act) {s u s'} (h : doActs as s = .ok u s') : ∀ w, Act.abandon w ∉ as := by
  induction as generalizing s with
  | nil => intro w hw; cases hw
  | cons a r ih =>
    unfold doActs at h
    cases ha : doAct a s with
    | err x s1 => rw [bind_err ha] at h; cases h
    | ok v s1 =>
      rw [bind_ok ha] at h
      intro w hw
      rcases List.mem_cons.mp hw with e | e
      · subst e; cases ha
      · exact ih h w e

/-- the composed trace, case by case.  `c0` are the results of what the application called at
    `Connecting`, `c1` of what it called at `ConnectFail`; `X` is the rest of the connection. -/
inductive Shape (i : Inputs) (react : React) : List Item → Prop
  /-- the application stops at `Connecting`: `_connect()` is never called -/
  | abandoned (c0 : List Obs) : (∀ o ∈ c0, isRes o = true) → StopsAtConnecting react →
      Shape i react ((Obs.ev .connecting :: c0).map .core)
  /-- `_connect()` raises: `ConnectFail` -/
  | failed (c0 c1 : List Obs) : (∀ o ∈ c0, isRes o = true) → (∀ o ∈ c1, isRes o = true) →
      ¬ StopsAtConnecting react → ¬ Connects i →
      Shape i react ((Obs.ev .connecting :: c0).map .core ++ phaseItems i ++
        (Obs.ev (.connectFail "connect-failed") :: c1).map .core)
  /-- `_connect()` returns a socket, but the application called `close()` at `Connecting`:
      `session.write` refuses the upgrade request -/
  | refused (q : Option Str) (c0 c1 : List Obs) : (∀ o ∈ c0, isRes o = true) → (∀ o ∈ c1, isRes o = true) →
      ¬ StopsAtConnecting react → connectResult i = .sock q → react [.connecting] ≠ [] →
      Shape i react ((Obs.ev .connecting :: c0).map .core ++ phaseItems i ++
        (Obs.sockClose :: .ev (.connectFail "request-failed") :: c1).map .core)
  /-- `_connect()` returns a socket, the `sendall` of the upgrade request raises -/
  | writeFailed (q : Option Str) (c0 c1 : List Obs) : (∀ o ∈ c0, isRes o = true) → (∀ o ∈ c1, isRes o = true) →
      ¬ StopsAtConnecting react → connectResult i = .sock q → i.writeFails (sentBefore i) = true →
      Shape i react ((Obs.ev .connecting :: c0).map .core ++ phaseItems i ++
        (Obs.wrFail i.ws.request :: .sockClose :: .ev (.connectFail "request-failed") :: c1).map .core)
  /-- `_connect()` returns a socket, the upgrade request goes out: `Connected` -/
  | connected (q : Option Str) (c0 X : List Obs) : (∀ o ∈ c0, isRes o = true) →
      ¬ StopsAtConnecting react → connectResult i = .sock q → i.writeFails (sentBefore i) = false →
      Shape i react ((Obs.ev .connecting :: c0).map .core ++ phaseItems i ++
        (Obs.wr i.ws.request :: .ev (.connected q.isSome) :: X).map .core)

theorem mem_reverse_res {l : List Obs} (h : ∀ o ∈ l, isRes o = true) : ∀ o ∈ l.reverse, isRes o = true :=
  fun o ho => h o (List.mem_reverse.mp ho)

/-- the composed trace has one of the five shapes -/
theorem composed_shape (base : Cfg) (i : Inputs) (react : React) (env : List EnvStep) :
    Shape i react (composed base i react env) := by
  have hinit : (initSys (coreCfg base i) react env).sockOpen = false := rfl
  obtain ⟨e, hrun, hep, habn⟩ := runAll_trace (coreCfg base i) react env
  rcases run_anatomy (initSys (coreCfg base i) react env) hinit with
    ⟨x, s1, hy, hr, l0, e0, n0⟩ | ⟨s1, hy, ⟨l0, e0, n0⟩, t, et, hac⟩
  · -- abandoned at `Connecting`
    have hx : x = .genExit := yieldEv_err_genExit hy
    subst hx
    have hstop : StopsAtConnecting react := by
      rw [yieldEv_eq] at hy
      exact (raises_doActs _ hy).2
    have hso : s1.sockOpen = false := by
      have := (yieldEv_shut .connecting _ hinit).1; rw [hy] at this; exact this
    have he : e = [] := habn (by rw [hr]; exact hso) ⟨s1, hr⟩
    have hc : composed base i react env = (runAll (coreCfg base i) react env).trace.reverse.map .core := by
      unfold composed
      simp only []
      rw [show yieldEv .connecting { cfg := coreCfg base i, react := react, env := env } = .err .genExit s1 from hy]
    rw [hc, hrun, he, hr]
    show Shape i react (List.map Item.core (([] ++ s1.trace).reverse))
    rw [List.nil_append, e0]
    show Shape i react (List.map Item.core ((l0 ++ Obs.ev .connecting :: []).reverse))
    rw [List.reverse_append]
    exact .abandoned l0.reverse (mem_reverse_res n0) hstop
  · -- `_connect()` is called
    have hnostop : ¬ StopsAtConnecting react := by
      rintro ⟨w, hw⟩
      rw [yieldEv_eq] at hy
      exact doActs_ok_no_abandon _ hy w hw
    have hc : composed base i react env =
        ((runAll (coreCfg base i) react env).trace.reverse.take s1.trace.length).map .core ++ phaseItems i ++
        ((runAll (coreCfg base i) react env).trace.reverse.drop s1.trace.length).map .core := by
      unfold composed
      simp only []
      rw [show yieldEv .connecting { cfg := coreCfg base i, react := react, env := env } = .ok () s1 from hy]
    have htr : (runAll (coreCfg base i) react env).trace.reverse = s1.trace.reverse ++ (t.reverse ++ e.reverse) := by
      rw [hrun, et, List.reverse_append, List.reverse_append, List.append_assoc]
    have hlen : s1.trace.length = s1.trace.reverse.length := (List.length_reverse).symm
    have htake : (runAll (coreCfg base i) react env).trace.reverse.take s1.trace.length = s1.trace.reverse := by
      rw [htr, hlen, List.take_left']
      rfl
    have hdrop : (runAll (coreCfg base i) react env).trace.reverse.drop s1.trace.length = t.reverse ++ e.reverse := by
      rw [htr, hlen, List.drop_left']
      rfl
    have hs1 : s1.trace.reverse = Obs.ev .connecting :: l0.reverse := by
      rw [e0]; show (l0 ++ Obs.ev .connecting :: []).reverse = _
      rw [List.reverse_append]; rfl
    rw [hc, htake, hdrop, hs1]
    have hbusy : (s1.closed = true ∨ s1.closing = true) → react [.connecting] ≠ [] := by
      intro hb hre
      rw [yieldEv_eq] at hy
      have : (initSys (coreCfg base i) react env).react (.connecting :: (initSys (coreCfg base i) react env).hist) = [] := hre
      rw [this] at hy
      cases hy
      rcases hb with h | h <;> cases h
    have hfin : Settled (run (initSys (coreCfg base i) react env)) → e = [] := by
      intro ⟨h1, h2⟩
      rcases hep with h | h | h
      · exact h
      · cases hr : run (initSys (coreCfg base i) react env) with
        | ok u s' =>
          exfalso
          rcases runAll_cases (coreCfg base i) react env with ⟨s, hr', eq⟩ | ⟨s, hr', _⟩ | ⟨s, hr', _⟩
          · rw [hr] at hr'; cases hr'
            rw [eq, hr, h] at hrun
            have := congrArg List.length hrun
            simp at this
          · rw [hr] at hr'; cases hr'
          · rw [hr] at hr'; cases hr'
        | err x s' =>
          have hx := h2 x s' hr; subst hx
          exact habn h1 ⟨s', hr⟩
      · exfalso
        cases hr : run (initSys (coreCfg base i) react env) with
        | ok u s' =>
          rcases runAll_cases (coreCfg base i) react env with ⟨s, hr', eq⟩ | ⟨s, hr', _⟩ | ⟨s, hr', _⟩
          · rw [hr] at hr'; cases hr'
            rw [eq, hr, h] at hrun
            have := congrArg List.length hrun
            simp at this
          · rw [hr] at hr'; cases hr'
          · rw [hr] at hr'; cases hr'
        | err x s' =>
          have hx := h2 x s' hr; subst hx
          have := habn h1 ⟨s', hr⟩
          rw [h] at this; cases this
    have hcfg : (initSys (coreCfg base i) react env).cfg = coreCfg base i := rfl
    have hwc : (initSys (coreCfg base i) react env).writeCtr = 0 := rfl
    rw [hcfg, hwc] at hac
    have hreq : (coreCfg base i).request = i.ws.request := rfl
    have hwf : (coreCfg base i).writeFails 0 = i.writeFails (sentBefore i) := by
      show i.writeFails (0 + sentBefore i) = _; rw [Nat.zero_add]
    have hconn : (coreCfg base i).connect = connectOutcome i := rfl
    unfold AfterConnect at hac
    rw [hconn, hreq, hwf] at hac
    -- the cases of `_connect()` returning a socket
    have sockCase : ∀ (q : Option Str) (p : Bool), connectResult i = .sock q → p = q.isSome →
        AfterSock i.ws.request p (i.writeFails (sentBefore i)) (s1.closed = true ∨ s1.closing = true)
          (Settled (run (initSys (coreCfg base i) react env))) t →
        Shape i react ((Obs.ev .connecting :: l0.reverse).map .core ++ phaseItems i ++
          (t.reverse ++ e.reverse).map .core) := by
      intro q p hq hp has
      subst hp
      cases has with
      | connected X hf =>
        have : (X ++ [Obs.ev (.connected q.isSome), .wr i.ws.request]).reverse ++ e.reverse =
            Obs.wr i.ws.request :: .ev (.connected q.isSome) :: (X.reverse ++ e.reverse) := by
          rw [List.reverse_append]; rfl
        rw [this]
        exact .connected q l0.reverse _ (mem_reverse_res n0) hnostop hq hf
      | writeFailed l hf n fin =>
        rw [hfin fin]
        have : (l ++ [Obs.ev (.connectFail "request-failed"), .sockClose, .wrFail i.ws.request]).reverse ++ [].reverse =
            Obs.wrFail i.ws.request :: .sockClose :: .ev (.connectFail "request-failed") :: l.reverse := by
          rw [List.reverse_append]; simp
        rw [this]
        exact .writeFailed q l0.reverse l.reverse (mem_reverse_res n0) (mem_reverse_res n) hnostop hq hf
      | refused l hb n fin =>
        rw [hfin fin]
        have : (l ++ [Obs.ev (.connectFail "request-failed"), .sockClose]).reverse ++ [].reverse =
            Obs.sockClose :: .ev (.connectFail "request-failed") :: l.reverse := by
          rw [List.reverse_append]; simp
        rw [this]
        exact .refused q l0.reverse l.reverse (mem_reverse_res n0) (mem_reverse_res n) hnostop hq (hbusy hb)
    have failCase : ¬ Connects i →
        ((∃ l, t = l ++ [Obs.ev (.connectFail "connect-failed")] ∧ ∀ o ∈ l, isRes o = true) ∧
          Settled (run (initSys (coreCfg base i) react env))) →
        Shape i react ((Obs.ev .connecting :: l0.reverse).map .core ++ phaseItems i ++
          (t.reverse ++ e.reverse).map .core) := by
      rintro hnc ⟨⟨l, rfl, n⟩, fin⟩
      rw [hfin fin]
      have : (l ++ [Obs.ev (.connectFail "connect-failed")]).reverse ++ [].reverse =
          Obs.ev (.connectFail "connect-failed") :: l.reverse := by
        rw [List.reverse_append]; simp
      rw [this]
      exact .failed l0.reverse l.reverse (mem_reverse_res n0) (mem_reverse_res n) hnostop hnc
    rcases connectOutcome_cases i with ⟨q, hq, ho⟩ | ⟨hnc, ho | ho⟩
    · rw [ho] at hac
      cases hsel : i.selOk <;> rw [hsel] at hac <;> exact sockCase q _ hq rfl hac
    · rw [ho] at hac; exact failCase hnc hac
    · rw [ho] at hac; exact failCase hnc hac

/-! ### projections -/

theorem ioLog_append (a b : List Item) : ioLog (a ++ b) = ioLog a ++ ioLog b := by
  induction a with
  | nil => rfl
  | cons x r ih => cases x <;> simp [ioLog, ih]

theorem coreLog_append (a b : List Item) : coreLog (a ++ b) = coreLog a ++ coreLog b := by
  induction a with
  | nil => rfl
  | cons x r ih => cases x <;> simp [coreLog, ih]

theorem sockLog_append (a b : List Item) : sockLog (a ++ b) = sockLog a ++ sockLog b := by
  induction a with
  | nil => rfl
  | cons x r ih => cases x <;> simp [sockLog, ih]

theorem ioLog_core (l : List Obs) : ioLog (l.map .core) = [] := by
  induction l with
  | nil => rfl
  | cons x r ih => simpa [ioLog] using ih

theorem sockLog_core (l : List Obs) : sockLog (l.map .core) = [] := by
  induction l with
  | nil => rfl
  | cons x r ih => simpa [sockLog] using ih

theorem coreLog_core (l : List Obs) : coreLog (l.map .core) = l := by
  induction l with
  | nil => rfl
  | cons x r ih => simpa [coreLog] using ih

theorem ioLog_sock (l : List Connect.Call) : ioLog (l.map .sock) = [] := by
  induction l with
  | nil => rfl
  | cons x r ih => simpa [ioLog] using ih

theorem coreLog_sock (l : List Connect.Call) : coreLog (l.map .sock) = [] := by
  induction l with
  | nil => rfl
  | cons x r ih => simpa [coreLog] using ih

theorem sockLog_sock (l : List Connect.Call) : sockLog (l.map .sock) = l := by
  induction l with
  | nil => rfl
  | cons x r ih => simpa [sockLog] using ih

theorem ioLog_expand (i : Inputs) (x : Proxy.Io) : ioLog (expand i x) = [x] := by
  cases x <;> simp [expand, ioLog, ioLog_sock]

theorem coreLog_expand (i : Inputs) (x : Proxy.Io) : coreLog (expand i x) = [] := by
  cases x <;> simp [expand, coreLog, coreLog_sock]

theorem ioLog_flatMap_expand (i : Inputs) (l : List Proxy.Io) : ioLog (l.flatMap (expand i)) = l := by
  induction l with
  | nil => rfl
  | cons x r ih => rw [List.flatMap_cons, ioLog_append, ioLog_expand, ih]; rfl

theorem coreLog_flatMap_expand (i : Inputs) (l : List Proxy.Io) : coreLog (l.flatMap (expand i)) = [] := by
  induction l with
  | nil => rfl
  | cons x r ih => rw [List.flatMap_cons, coreLog_append, coreLog_expand, ih]; rfl

/-- the close of the proxy socket on a failed tunnel (repaired shape): nothing, or one socket-module call -/
theorem closeItems_cases (i : Inputs) : closeItems i = [] ∨ ∃ k, closeItems i = [.sock (.close k)] := by
  unfold closeItems
  split
  · exact Or.inl rfl
  · split
    · exact Or.inr ⟨_, rfl⟩
    · exact Or.inl rfl
  · exact Or.inl rfl

theorem closeItems_sock (i : Inputs) : ∃ l : List Connect.Call, closeItems i = l.map .sock := by
  rcases closeItems_cases i with h | ⟨k, h⟩
  · exact ⟨[], h⟩
  · exact ⟨[.close k], h⟩

/-- the connection-phase items project to the Proxy model's log … -/
theorem ioLog_phaseItems (i : Inputs) : ioLog (phaseItems i) = connectLog i := by
  obtain ⟨l, hl⟩ := closeItems_sock i
  unfold phaseItems
  rw [ioLog_append, ioLog_flatMap_expand, hl, ioLog_sock, List.append_nil]

/-- … and contain no observation of the core model -/
theorem coreLog_phaseItems (i : Inputs) : coreLog (phaseItems i) = [] := by
  obtain ⟨l, hl⟩ := closeItems_sock i
  unfold phaseItems
  rw [coreLog_append, coreLog_flatMap_expand, hl, coreLog_sock]; rfl

theorem isCoreWrite_phaseItems (i : Inputs) : ∀ x ∈ phaseItems i, x.isCoreWrite = false := by
  intro x hx
  unfold phaseItems at hx
  rcases List.mem_append.mp hx with hx | hx
  · obtain ⟨y, _, hy⟩ := List.mem_flatMap.mp hx
    cases y <;> simp [expand] at hy <;> (try (rcases hy with rfl | ⟨c, _, rfl⟩)) <;> (try subst hy) <;>
      simp [Item.isCoreWrite]
  · obtain ⟨l, hl⟩ := closeItems_sock i
    rw [hl] at hx
    obtain ⟨c, _, rfl⟩ := List.mem_map.mp hx
    rfl

theorem isCoreWrite_res {l : List Obs} (h : ∀ o ∈ l, isRes o = true) : ∀ x ∈ l.map Item.core, x.isCoreWrite = false := by
  intro x hx
  obtain ⟨o, ho, rfl⟩ := List.mem_map.mp hx
  have := h o ho
  cases o <;> first | (cases this; done) | simp [Item.isCoreWrite, isCoreWrite]

theorem event?_sockClose : Obs.event? .sockClose = none := rfl
theorem event?_wr (d : Bytes) : Obs.event? (.wr d) = none := rfl
theorem event?_wrFail (d : Bytes) : Obs.event? (.wrFail d) = none := rfl
theorem event?_ev (e : Event) : Obs.event? (.ev e) = some e := rfl

theorem events_res {l : List Obs} (h : ∀ o ∈ l, isRes o = true) : l.filterMap Obs.event? = [] := by
  induction l with
  | nil => rfl
  | cons o r ih =>
    have ho := h o List.mem_cons_self
    have := ih (fun o' ho' => h o' (List.mem_cons_of_mem _ ho'))
    cases o <;> first | (simpa [Obs.event?] using this) | cases ho

/-- the events of a composed trace, oldest first -/
def evs (l : List Item) : List Event := (coreLog l).filterMap Obs.event?

/-- the core observations of the composed trace are exactly the trace of the core model -/
theorem coreLog_composed (base : Cfg) (i : Inputs) (react : React) (env : List EnvStep) :
    coreLog (composed base i react env) = (runAll (coreCfg base i) react env).trace.reverse := by
  unfold composed
  simp only []
  split
  · exact coreLog_core _
  · rw [coreLog_append, coreLog_append, coreLog_core, coreLog_core, coreLog_phaseItems, List.append_nil,
      List.take_append_drop]

/-- … so its events are the events of the core model's connection -/
theorem evs_composed (base : Cfg) (i : Inputs) (react : React) (env : List EnvStep) :
    evs (composed base i react env) = events (runAll (coreCfg base i) react env).trace := by
  unfold evs events; rw [coreLog_composed]

/-- the events of each shape -/
theorem shape_events {i : Inputs} {react : React} {L : List Item} (h : Shape i react L) :
    (StopsAtConnecting react ∧ evs L = [.connecting]) ∨
    (¬ StopsAtConnecting react ∧ ¬ Connects i ∧ evs L = [.connecting, .connectFail "connect-failed"]) ∨
    (¬ StopsAtConnecting react ∧ ∃ q, connectResult i = .sock q ∧
      ((evs L = [.connecting, .connectFail "request-failed"] ∧
          (react [.connecting] ≠ [] ∨ i.writeFails (sentBefore i) = true)) ∨
       (i.writeFails (sentBefore i) = false ∧ ∃ E, evs L = .connecting :: .connected q.isSome :: E))) := by
  cases h with
  | abandoned c0 n0 hs =>
    refine Or.inl ⟨hs, ?_⟩
    unfold evs; rw [coreLog_core]
    simp [List.filterMap_cons, event?_sockClose, event?_wr, event?_wrFail, event?_ev, events_res n0]
  | failed c0 c1 n0 n1 hs hc =>
    refine Or.inr (Or.inl ⟨hs, hc, ?_⟩)
    unfold evs
    rw [coreLog_append, coreLog_append, coreLog_core, coreLog_core, coreLog_phaseItems]
    simp [List.filterMap_cons, event?_sockClose, event?_wr, event?_wrFail, event?_ev, events_res n0, events_res n1]
  | refused q c0 c1 n0 n1 hs hq hr =>
    refine Or.inr (Or.inr ⟨hs, q, hq, Or.inl ⟨?_, Or.inl hr⟩⟩)
    unfold evs
    rw [coreLog_append, coreLog_append, coreLog_core, coreLog_core, coreLog_phaseItems]
    simp [List.filterMap_cons, event?_sockClose, event?_wr, event?_wrFail, event?_ev, events_res n0, events_res n1]
  | writeFailed q c0 c1 n0 n1 hs hq hf =>
    refine Or.inr (Or.inr ⟨hs, q, hq, Or.inl ⟨?_, Or.inr hf⟩⟩)
    unfold evs
    rw [coreLog_append, coreLog_append, coreLog_core, coreLog_core, coreLog_phaseItems]
    simp [List.filterMap_cons, event?_sockClose, event?_wr, event?_wrFail, event?_ev, events_res n0, events_res n1]
  | connected q c0 X n0 hs hq hf =>
    refine Or.inr (Or.inr ⟨hs, q, hq, Or.inr ⟨hf, X.filterMap Obs.event?, ?_⟩⟩)
    unfold evs
    rw [coreLog_append, coreLog_append, coreLog_core, coreLog_core, coreLog_phaseItems]
    simp [List.filterMap_cons, event?_sockClose, event?_wr, event?_wrFail, event?_ev, events_res n0]

/-! ### the connection-phase log when `_connect()` succeeds / fails through a proxy -/

theorem prefix_of_split {α : Type} (p : α → Bool) : ∀ {a pre : List α} {post b : List α} {x : α},
    pre ++ x :: post = a ++ b → p x = true → (∀ z ∈ a, p z = false) → ∃ r, pre = a ++ r ∧ r ++ x :: post = b
  | [], pre, post, b, x, h, _, _ => ⟨pre, rfl, h⟩
  | y :: a, [], post, b, x, h, hx, ha => by
    simp only [List.nil_append, List.cons_append, List.cons.injEq] at h
    have := ha y List.mem_cons_self
    rw [← h.1, hx] at this; cases this
  | y :: a, z :: pre, post, b, x, h, hx, ha => by
    simp only [List.cons_append, List.cons.injEq] at h
    obtain ⟨r, h1, h2⟩ := prefix_of_split p h.2 hx (fun w hw => ha w (List.mem_cons_of_mem _ hw))
    exact ⟨r, by rw [h.1, h1]; rfl, h2⟩

open Lomond.Proxy in
theorem connectLog_proxy (i : Inputs) (purl : Str) (hc : proxyChoice i.ws = some purl) :
    connectLog i = (connectProxy i.ws (proxyEnv i) purl).1 := by
  unfold connectLog; rw [hc]

open Lomond.Proxy in
/-- through a proxy, `_connect()` returns a socket: the log is the connection to the proxy, the CONNECT
    request, the reads that deliver a complete 200 reply, and for `wss` the TLS wrap -/
theorem connectLog_up (i : Inputs) (purl : Str) (q : Option Str) (hc : proxyChoice i.ws = some purl)
    (hq : connectResult i = .sock q) :
    q = some purl ∧ TunnelUp i.ws (proxyEnv i) purl ∧
    ∃ u p req, parseUrl purl = some u ∧ u.port = some p ∧ connectRequestOf i.ws purl = some req ∧
      connectLog i = [proxyAddr u p, .write false req true] ++ (readLoop i.reads []).1 ++
        (if i.ws.target.secure then [.wrap i.ws.target.host true] else []) ∧
      Reply200 (received (connectLog i)) := by
  obtain ⟨h1, h2, _⟩ := connectResult_proxy i purl hc
  have hq' := h2 q hq
  subst hq'
  have hup := h1.mp hq
  refine ⟨rfl, hup, ?_⟩
  rw [connectLog_proxy i purl hc]
  have hs := connectProxy_shape i.ws (proxyEnv i) purl
  generalize connectProxy i.ws (proxyEnv i) purl = r at hs
  obtain ⟨u0, p0, hu0, hp0⟩ := hup.url
  have hok := (readLoop_ok_iff _).mpr hup.reply
  cases hs with
  | badUrl h => rw [h] at hu0; cases hu0
  | badPort u h1 h2 => rw [h1] at hu0; cases hu0; rw [h2] at hp0; cases hp0
  | noConnect _ _ _ _ h => rw [hup.connect] at h; cases h
  | noHost _ _ _ _ _ h => exact absurd h hup.host
  | writeErr _ _ _ _ _ _ _ h => rw [hup.sent] at h; cases h
  | readFail _ _ _ _ _ _ _ _ _ h => rw [hok] at h; cases h
  | wrapFail _ _ _ _ _ _ _ _ _ hs hw => rw [hup.tls hs] at hw; cases hw
  | up u p req hu hp hconn hreq hw hl htls =>
    refine ⟨u, p, req, hu, hp, hreq, rfl, ?_⟩
    have hv := readLoop_ok i.reads [] hl
    rw [List.nil_append] at hv
    have hr : Reply200 (received (readLoop i.reads []).1) := (verdict_ok_iff _).mp hv
    have : received ([proxyAddr u p, Io.write false req true] ++ (readLoop (proxyEnv i).reads []).1 ++
        (if i.ws.target.secure then [Io.wrap i.ws.target.host true] else [])) = received (readLoop i.reads []).1 := by
      rw [received_append, received_append]
      have e1 : received [proxyAddr u p, Io.write false req true] = [] := by simp [received, Io.rx, proxyAddr]
      have e2 : received (if i.ws.target.secure then [Io.wrap i.ws.target.host true] else []) = [] := by
        split <;> simp [received, Io.rx]
      rw [e1, e2, List.nil_append, List.append_nil]; rfl
    show Reply200 (received _)
    rw [this]; exact hr

open Lomond.Proxy in
/-- through a proxy, `_connect()` raises: at most one write was made, the CONNECT request on the plain
    socket, and the failure kind is that of the Proxy model -/
theorem connectLog_fail (i : Inputs) (purl : Str) (hc : proxyChoice i.ws = some purl) (hn : ¬ Connects i) :
    (writes (connectLog i)).length ≤ 1 ∧
    (∀ w ∈ writes (connectLog i), ∃ req ok, connectRequestOf i.ws purl = some req ∧ w = .write false req ok) ∧
    (connectProxy i.ws (proxyEnv i) purl).2 = .error (failKind i) := by
  have hfk : ∀ k, (connectProxy i.ws (proxyEnv i) purl).2 = .error k → failKind i = k := by
    intro k hk; unfold failKind; rw [hc]; simp only [hk]
  have hnc : ∀ t, (connectProxy i.ws (proxyEnv i) purl).2 ≠ .ok t := by
    intro t ht
    apply hn
    exact ⟨some purl, by unfold connectResult; rw [hc]; simp only [ht]⟩
  rw [connectLog_proxy i purl hc]
  have hs := connectProxy_shape i.ws (proxyEnv i) purl
  have hwr := writes_reads _ (readLoop_reads (proxyEnv i).reads [])
  generalize connectProxy i.ws (proxyEnv i) purl = r at hs hfk hnc
  cases hs with
  | badUrl _ => exact ⟨by simp [writes], by simp [writes], by rw [hfk _ rfl]⟩
  | badPort _ _ _ => exact ⟨by simp [writes], by simp [writes], by rw [hfk _ rfl]⟩
  | noConnect _ _ _ _ _ => exact ⟨by simp [writes, Io.isWrite, proxyAddr], by simp [writes, Io.isWrite, proxyAddr], by rw [hfk _ rfl]⟩
  | noHost _ _ _ _ _ _ => exact ⟨by simp [writes, Io.isWrite, proxyAddr], by simp [writes, Io.isWrite, proxyAddr], by rw [hfk _ rfl]⟩
  | writeErr u p req _ _ _ hreq _ =>
    exact ⟨by simp [writes, Io.isWrite, proxyAddr, List.filter_cons],
      by simp [writes, Io.isWrite, proxyAddr, List.filter_cons, hreq], by rw [hfk _ rfl]⟩
  | readFail u p req k _ _ _ hreq _ hl =>
    simp only [writes] at hwr
    exact ⟨by simp [writes, List.filter_cons, List.filter_append, hwr, Io.isWrite, proxyAddr],
      by simp [writes, List.filter_cons, List.filter_append, hwr, Io.isWrite, proxyAddr, hreq], by rw [hfk _ rfl]⟩
  | wrapFail u p req _ _ _ hreq _ hl _ _ =>
    simp only [writes] at hwr
    exact ⟨by simp [writes, List.filter_cons, List.filter_append, hwr, Io.isWrite, proxyAddr],
      by simp [writes, List.filter_cons, List.filter_append, hwr, Io.isWrite, proxyAddr, hreq], by rw [hfk _ rfl]⟩
  | up _ _ _ _ _ _ _ _ _ _ => exact absurd rfl (hnc _)

/-! ### the Proxy model's own log is a view of the composed trace -/

/-- how `Proxy.run` ends after the connection phase -/
def ending (i : Inputs) : List Proxy.Io :=
  match connectResult i with
  | .sock _ => Proxy.sendRequest i.ws (proxyEnv i) (viaTls i) (sentBefore i) (Proxy.proxyChoice i.ws)
  | _ => [.ev (.connectFail (failKind i))]

open Lomond.Proxy in
/-- `Proxy.run` on the linked environment: `Connecting`, the connection phase, and its ending -/
theorem proxy_run_eq (i : Inputs) : Proxy.run i.ws (proxyEnv i) = .ev .connecting :: (connectLog i ++ ending i) := by
  cases hc : proxyChoice i.ws with
  | none =>
    unfold Proxy.run connectLog ending connectResult failKind viaTls sentBefore
    rw [hc]
    cases hs : sockOk i <;> simp [proxyEnv, hs]
  | some purl =>
    have hs := connectProxy_shape i.ws (proxyEnv i) purl
    unfold Proxy.run connectLog ending connectResult failKind viaTls sentBefore
    rw [hc]
    simp only [Option.isSome_some, Bool.true_and, if_true]
    generalize connectProxy i.ws (proxyEnv i) purl = r at hs
    cases hs with
    | readFail u p req k _ _ _ _ _ hl => cases k <;> simp
    | _ => simp

theorem view_res {i : Inputs} {l : List Obs} (h : ∀ o ∈ l, isRes o = true) :
    (l.map Item.core).filterMap (view i) = [] := by
  induction l with
  | nil => rfl
  | cons o r ih =>
    have ho := h o List.mem_cons_self
    have := ih (fun o' ho' => h o' (List.mem_cons_of_mem _ ho'))
    cases o <;> first | (cases ho; done) | simpa [view, viewCore] using this

theorem view_flatMap_expand (i : Inputs) (l : List Proxy.Io) : (l.flatMap (expand i)).filterMap (view i) = l := by
  induction l with
  | nil => rfl
  | cons x r ih =>
    rw [List.flatMap_cons, List.filterMap_append, ih]
    have : (expand i x).filterMap (view i) = [x] := by
      cases x <;> simp [expand, view, List.filterMap_cons]
    rw [this]; rfl

theorem view_sock (i : Inputs) (l : List Connect.Call) : (l.map Item.sock).filterMap (view i) = [] := by
  induction l with
  | nil => rfl
  | cons x r ih => simpa [view, List.filterMap_cons] using ih

theorem view_phaseItems (i : Inputs) : (phaseItems i).filterMap (view i) = connectLog i := by
  obtain ⟨l, hl⟩ := closeItems_sock i
  unfold phaseItems
  rw [List.filterMap_append, view_flatMap_expand, hl, view_sock, List.append_nil]

open Lomond.Proxy in
/-- **The Proxy model's log is the beginning of the composed trace, seen through `view`**, for an
    application that does nothing at `Connecting` -/
theorem run_prefix_view (base : Core.Cfg) (i : Inputs) (react : React) (env : List EnvStep)
    (hre : react [.connecting] = []) :
    Proxy.run i.ws (proxyEnv i) <+: (composed base i react env).filterMap (view i) := by
  rw [proxy_run_eq]
  have hns : ¬ StopsAtConnecting react := by rintro ⟨w, hw⟩; rw [hre] at hw; cases hw
  have hsr : (proxyEnv i).writeFails (sentBefore i) = i.writeFails (sentBefore i) := rfl
  have hsh := composed_shape base i react env
  generalize composed base i react env = L at hsh ⊢
  cases hsh with
  | abandoned c0 n0 hs => exact absurd hs hns
  | failed c0 c1 n0 n1 _ hc =>
    have he : ending i = [.ev (.connectFail (failKind i))] := by
      unfold ending
      cases h : connectResult i with
      | sock q => exact absurd ⟨q, h⟩ hc
      | socketFail => rfl
      | otherFail => rfl
    rw [he, List.filterMap_append, List.filterMap_append, view_phaseItems, List.map_cons, List.map_cons,
      List.filterMap_cons, List.filterMap_cons, view_res n0, view_res n1]
    simp [view, viewCore]
  | refused q c0 c1 n0 n1 _ hq hr => exact absurd hre hr
  | writeFailed q c0 c1 n0 n1 _ hq hf =>
    have he : ending i = [.write (viaTls i) i.ws.request false, .ev (.connectFail .requestFailed)] := by
      unfold ending; rw [hq]; simp only [sendRequest, hsr, hf, if_true]
    rw [he, List.filterMap_append, List.filterMap_append, view_phaseItems]
    simp [List.filterMap_cons, view, viewCore, view_res n0, view_res n1]
  | connected q c0 X n0 _ hq hf =>
    have he : ending i = [.write (viaTls i) i.ws.request true, .ev (.connected (proxyChoice i.ws))] := by
      unfold ending; rw [hq]; simp [sendRequest, hsr, hf]
    rw [he, List.filterMap_append, List.filterMap_append, view_phaseItems]
    simp only [List.map_cons, List.filterMap_cons, view, viewCore, view_res n0, List.cons_append,
      List.nil_append, List.append_assoc]
    exact ⟨List.filterMap (view i) (List.map Item.core X), by simp⟩

/-! ### `Connected` is yielded at most once -/

theorem mon_step_late {ph q : Phase} {e : Event} (h : Mon.step ph e = some q) (h1 : ph ≠ .start) :
    q ≠ .start ∧ q ≠ .connecting := by
  cases ph <;> cases e <;> simp [Mon.step] at h <;> first | (exact absurd rfl h1) | (subst h; simp)

theorem no_connected_later : ∀ (l : List Event) (ph0 ph : Phase), ph0 ≠ .start → ph0 ≠ .connecting →
    Mon.run ph0 l = some ph → ∀ p, Event.connected p ∉ l
  | [], _, _, _, _, _, p => by simp
  | e :: r, ph0, ph, h0, h1, h, p => by
    simp only [Mon.run] at h
    cases hs : Mon.step ph0 e with
    | none => rw [hs] at h; cases h
    | some q =>
      rw [hs] at h
      simp only [Option.bind_some] at h
      obtain ⟨hq0, hq1⟩ := mon_step_late hs h0
      intro hm
      rcases List.mem_cons.mp hm with he | hr
      · subst he
        cases ph0 <;> simp [Mon.step] at hs
        exact h1 rfl
      · exact no_connected_later r q ph hq0 hq1 h p hr

/-! ### core writes and `sendall`s of a composed trace -/

theorem noCW_res {l : List Obs} (h : ∀ o ∈ l, isRes o = true) : ∀ o ∈ l, isCoreWrite o = false := by
  intro o ho
  have := h o ho
  cases o <;> first | (cases this; done) | rfl

theorem noCW_cons {o : Obs} {l : List Obs} (ho : isCoreWrite o = false) (hl : ∀ x ∈ l, isCoreWrite x = false) :
    ∀ x ∈ o :: l, isCoreWrite x = false := by
  intro x hx
  rcases List.mem_cons.mp hx with rfl | h
  · exact ho
  · exact hl x h

theorem noCW_map {l : List Obs} (h : ∀ o ∈ l, isCoreWrite o = false) :
    ∀ z ∈ l.map Item.core, z.isCoreWrite = false := by
  intro z hz
  obtain ⟨o, ho, rfl⟩ := List.mem_map.mp hz
  exact h o ho

theorem noCW_append {a b : List Item} (ha : ∀ z ∈ a, z.isCoreWrite = false) (hb : ∀ z ∈ b, z.isCoreWrite = false) :
    ∀ z ∈ a ++ b, z.isCoreWrite = false := by
  intro z hz
  rcases List.mem_append.mp hz with h | h
  · exact ha z h
  · exact hb z h

theorem sends_append (a b : List Item) : sends (a ++ b) = sends a ++ sends b := List.filter_append ..

theorem sends_core (l : List Obs) : sends (l.map .core) = (l.filter isCoreWrite).map .core := by
  unfold sends
  induction l with
  | nil => rfl
  | cons o r ih =>
    rw [List.map_cons, List.filter_cons, List.filter_cons, ih]
    show (if isCoreWrite o = true then _ else _) = _
    split <;> rfl

theorem sends_core_none {l : List Obs} (h : ∀ o ∈ l, isCoreWrite o = false) : sends (l.map .core) = [] := by
  rw [sends_core, List.filter_eq_nil_iff.mpr (fun o ho => by rw [h o ho]; exact Bool.false_ne_true)]; rfl

theorem sends_flatMap_expand (i : Inputs) (l : List Proxy.Io) :
    sends (l.flatMap (expand i)) = (Proxy.writes l).map Item.io := by
  unfold sends Proxy.writes
  induction l with
  | nil => rfl
  | cons y r ih =>
    rw [List.flatMap_cons, List.filter_append, ih]
    cases y <;> simp [expand, List.filter_cons, Item.isWrite, Proxy.Io.isWrite]

theorem sends_sock (l : List Connect.Call) : sends (l.map Item.sock) = [] := by
  unfold sends
  rw [List.filter_eq_nil_iff]
  intro z hz
  obtain ⟨c, _, rfl⟩ := List.mem_map.mp hz
  simp [Item.isWrite]

theorem sends_phaseItems (i : Inputs) : sends (phaseItems i) = (Proxy.writes (connectLog i)).map Item.io := by
  obtain ⟨l, hl⟩ := closeItems_sock i
  unfold phaseItems
  rw [sends_append, sends_flatMap_expand, hl, sends_sock, List.append_nil]

/-- the `sendall`s of each shape: those of the connection phase, then those of the core model, whose
    first is the upgrade request -/
theorem shape_sends {i : Inputs} {react : React} {L : List Item} (h : Shape i react L) :
    (StopsAtConnecting react ∧ sends L = [] ∧ ∀ z ∈ L, z.isCoreWrite = false) ∨
    (¬ Connects i ∧ sends L = (Proxy.writes (connectLog i)).map Item.io ∧ ∀ z ∈ L, z.isCoreWrite = false) ∨
    (∃ q, connectResult i = .sock q ∧
      ((sends L = (Proxy.writes (connectLog i)).map Item.io ∧ ∀ z ∈ L, z.isCoreWrite = false) ∨
       (sends L = (Proxy.writes (connectLog i)).map Item.io ++ [.core (.wrFail i.ws.request)]) ∨
       (∃ X : List Obs, sends L = (Proxy.writes (connectLog i)).map Item.io ++ .core (.wr i.ws.request) :: sends (X.map .core)))) := by
  cases h with
  | abandoned c0 n0 hs =>
    have hn := noCW_cons (o := .ev .connecting) rfl (noCW_res n0)
    exact Or.inl ⟨hs, sends_core_none hn, noCW_map hn⟩
  | failed c0 c1 n0 n1 _ hc =>
    have h0 := noCW_cons (o := .ev .connecting) rfl (noCW_res n0)
    have h1 := noCW_cons (o := .ev (.connectFail "connect-failed")) rfl (noCW_res n1)
    refine Or.inr (Or.inl ⟨hc, ?_, noCW_append (noCW_append (noCW_map h0) (isCoreWrite_phaseItems i)) (noCW_map h1)⟩)
    rw [sends_append, sends_append, sends_core_none h0, sends_core_none h1, sends_phaseItems]; simp
  | refused q c0 c1 n0 n1 _ hq _ =>
    have h0 := noCW_cons (o := .ev .connecting) rfl (noCW_res n0)
    have h1 := noCW_cons (o := .sockClose) rfl (noCW_cons (o := .ev (.connectFail "request-failed")) rfl (noCW_res n1))
    refine Or.inr (Or.inr ⟨q, hq, Or.inl ⟨?_, noCW_append (noCW_append (noCW_map h0) (isCoreWrite_phaseItems i)) (noCW_map h1)⟩⟩)
    rw [sends_append, sends_append, sends_core_none h0, sends_core_none h1, sends_phaseItems]; simp
  | writeFailed q c0 c1 n0 n1 _ hq _ =>
    have h0 := noCW_cons (o := .ev .connecting) rfl (noCW_res n0)
    have h1 := noCW_cons (o := .sockClose) rfl (noCW_cons (o := .ev (.connectFail "request-failed")) rfl (noCW_res n1))
    refine Or.inr (Or.inr ⟨q, hq, Or.inr (Or.inl ?_)⟩)
    have : sends ((Obs.wrFail i.ws.request :: .sockClose :: .ev (.connectFail "request-failed") :: c1).map Item.core) =
        [Item.core (.wrFail i.ws.request)] := by
      rw [sends_core, List.filter_cons_of_pos (by rfl),
        List.filter_eq_nil_iff.mpr (fun o ho => by rw [h1 o ho]; exact Bool.false_ne_true)]; rfl
    rw [sends_append, sends_append, sends_core_none h0, sends_phaseItems, this]; simp
  | connected q c0 X n0 _ hq _ =>
    have h0 := noCW_cons (o := .ev .connecting) rfl (noCW_res n0)
    refine Or.inr (Or.inr ⟨q, hq, Or.inr (Or.inr ⟨X, ?_⟩)⟩)
    have : sends ((Obs.wr i.ws.request :: .ev (.connected q.isSome) :: X).map Item.core) =
        Item.core (.wr i.ws.request) :: sends (X.map Item.core) := by
      rw [sends_core, sends_core, List.filter_cons_of_pos (by rfl), List.filter_cons_of_neg (by simp [isCoreWrite])]; rfl
    rw [sends_append, sends_append, sends_core_none h0, sends_phaseItems, this]; simp

/-- the proxy reported by a successful `_connect()` is the one chosen for the scheme -/
theorem connectResult_sock_eq (i : Inputs) (q : Option Str) (h : connectResult i = .sock q) :
    q = Proxy.proxyChoice i.ws := by
  cases hc : Proxy.proxyChoice i.ws with
  | none =>
    rw [connectResult_direct i hc] at h
    cases hs : sockOk i <;> rw [hs] at h <;> cases h
    rfl
  | some purl => exact (connectResult_proxy i purl hc).2.1 q h

/-- a direct connection: the connection phase is one `_connect_sock` call to the target with its
    socket-module calls -/
theorem phaseItems_direct (i : Inputs) (hc : Proxy.proxyChoice i.ws = none) :
    phaseItems i = .io (.connectTo i.ws.target.host i.ws.target.port i.ws.target.secure) ::
      (Connect.connectSock i.gai).2.map .sock := by
  have hcl : closeItems i = [] := by
    unfold closeItems
    rw [connectResult_direct i hc]
    cases hs : sockOk i with
    | true => rfl
    | false =>
      have : (Connect.connectSock i.gai).1 = .fail := by
        cases h : (Connect.connectSock i.gai).1 with
        | fail => rfl
        | sock k => exact absurd ((sockOk_iff i).mpr (by rw [h]; intro h'; cases h')) (by rw [hs]; decide)
      rw [this]; rfl
  unfold phaseItems connectLog
  rw [hc, hcl]
  simp [expand]

theorem sockLog_phaseItems_direct (i : Inputs) (hc : Proxy.proxyChoice i.ws = none) :
    sockLog (phaseItems i) = (Connect.connectSock i.gai).2 := by
  rw [phaseItems_direct i hc]
  show sockLog (List.map Item.sock _) = _
  exact sockLog_sock _

/-! ### finding D11: the socket that had connected to the proxy, when the tunnel fails -/

theorem closeItems_connects (i : Inputs) (h : Connects i) : closeItems i = [] := by
  obtain ⟨q, hq⟩ := h
  unfold closeItems; rw [hq]

theorem closeItems_fail (i : Inputs) (hn : ¬ Connects i) (k : Nat) (hk : (Connect.connectSock i.gai).1 = .sock k) :
    closeItems i = if i.pclose && !(connectLog i).isEmpty then [.sock (.close k)] else [] := by
  unfold closeItems
  rw [hk]
  cases h : connectResult i with
  | sock q => exact absurd ⟨q, h⟩ hn
  | socketFail => rfl
  | otherFail => rfl

theorem closeItems_nosock (i : Inputs) (hf : (Connect.connectSock i.gai).1 = .fail) : closeItems i = [] := by
  unfold closeItems
  rw [hf]
  cases connectResult i <;> rfl

/-- a `connect()` made by the address loop either failed — then that socket is closed by the loop — or
    it is the one the loop returns -/
theorem attempt_connect (j : Nat) : ∀ (i0 : Nat) (addrs : List Connect.AddrOutcome),
    Connect.Call.connect j ∈ (Connect.attempt i0 addrs).2 →
    Connect.Call.close j ∈ (Connect.attempt i0 addrs).2 ∨ (Connect.attempt i0 addrs).1 = some j
  | _, [], h => by simp [Connect.attempt] at h
  | i0, .sockCreateFail :: r, h => by
    simp only [Connect.attempt, List.mem_cons, reduceCtorEq, false_or] at h ⊢
    exact attempt_connect j (i0 + 1) r h
  | i0, .connectFail :: r, h => by
    simp only [Connect.attempt, List.mem_cons, reduceCtorEq, false_or, Connect.Call.connect.injEq,
      Connect.Call.close.injEq] at h ⊢
    rcases h with h | h
    · exact Or.inl (Or.inl h)
    · rcases attempt_connect j (i0 + 1) r h with h' | h'
      · exact Or.inl (Or.inr h')
      · exact Or.inr h'
  | i0, .ok :: _, h => by
    simp only [Connect.attempt, List.mem_cons, reduceCtorEq, false_or, Connect.Call.connect.injEq,
      List.not_mem_nil, or_false] at h ⊢
    subst h; rfl

theorem connectSock_connect (gai : Option (List Connect.AddrOutcome)) (j : Nat)
    (h : Connect.Call.connect j ∈ (Connect.connectSock gai).2) :
    Connect.Call.close j ∈ (Connect.connectSock gai).2 ∨ (Connect.connectSock gai).1 = .sock j := by
  cases gai with
  | none => simp [Connect.connectSock] at h
  | some addrs =>
    have key := attempt_connect j 0 addrs
    unfold Connect.connectSock at h ⊢
    simp only [] at h ⊢
    cases hat : Connect.attempt 0 addrs with
    | mk res l =>
      rw [hat] at key
      cases res with
      | none =>
        simp only [hat] at h key ⊢
        rcases key h with h' | h'
        · exact Or.inl h'
        · cases h'
      | some k =>
        simp only [hat] at h key ⊢
        rcases key h with h' | h'
        · exact Or.inl h'
        · cases h'; exact Or.inr rfl

/-- the socket-module calls among the connection-phase items -/
theorem mem_phaseItems_sock (i : Inputs) (c : Connect.Call) (h : Item.sock c ∈ phaseItems i) :
    (c ∈ (Connect.connectSock i.gai).2 ∧ (connectLog i).isEmpty = false) ∨ Item.sock c ∈ closeItems i := by
  unfold phaseItems at h
  rcases List.mem_append.mp h with h | h
  · left
    obtain ⟨y, hy, hm⟩ := List.mem_flatMap.mp h
    refine ⟨?_, by cases hl : connectLog i with
      | nil => rw [hl] at hy; cases hy
      | cons _ _ => rfl⟩
    cases y <;> simp [expand] at hm
    exact hm
  · exact Or.inr h

theorem mem_coreLog {o : Obs} : ∀ {l : List Item}, Item.core o ∈ l → o ∈ coreLog l
  | [], h => by cases h
  | y :: t, h => by
    rcases List.mem_cons.mp h with h | h
    · subst h; simp [coreLog]
    · have := mem_coreLog h
      cases y <;> simp [coreLog, this]

theorem evs_split (pre post : List Item) (e : Event) :
    evs (pre ++ Item.core (.ev e) :: post) = evs pre ++ e :: evs post := by
  unfold evs
  rw [coreLog_append]
  simp [coreLog, List.filterMap_append, List.filterMap_cons, event?_ev]

/-- "is a `ConnectFail` event of the core model" -/
def isCF : Item → Bool
  | .core (.ev (.connectFail _)) => true
  | _ => false

theorem isCF_res {l : List Obs} (hl : ∀ o ∈ l, isRes o = true) : ∀ z ∈ l.map Item.core, isCF z = false := by
  intro z hz
  obtain ⟨o, ho, rfl⟩ := List.mem_map.mp hz
  have := hl o ho
  cases o <;> first | (cases this; done) | rfl

theorem isCF_phaseItems (i : Inputs) : ∀ z ∈ phaseItems i, isCF z = false := by
  intro z hz
  cases z with
  | core o =>
    have := mem_coreLog hz
    rw [coreLog_phaseItems] at this; cases this
  | io _ => rfl
  | sock _ => rfl

theorem isCF_head (i : Inputs) {c0 : List Obs} (n0 : ∀ o ∈ c0, isRes o = true) :
    ∀ z ∈ (Obs.ev .connecting :: c0).map Item.core ++ phaseItems i, isCF z = false := by
  intro z hz
  rcases List.mem_append.mp hz with h | h
  · rw [List.map_cons] at h
    rcases List.mem_cons.mp h with rfl | h
    · rfl
    · exact isCF_res n0 z h
  · exact isCF_phaseItems i z h

/-- the first item of a non-empty connection-phase log is the `_connect_sock` call -/
theorem connectLog_head (i : Inputs) (y : Proxy.Io) (t : List Proxy.Io) (hlog : connectLog i = y :: t) :
    ∃ h p s, y = Proxy.Io.connectTo h p s := by
  cases hc : Proxy.proxyChoice i.ws with
  | none =>
    have : connectLog i = [.connectTo i.ws.target.host i.ws.target.port i.ws.target.secure] := by
      unfold connectLog; rw [hc]
    rw [this] at hlog; cases hlog; exact ⟨_, _, _, rfl⟩
  | some purl =>
    have hs := connectProxy_shape i.ws (proxyEnv i) purl
    rw [connectLog_proxy i purl hc] at hlog
    generalize Proxy.connectProxy i.ws (proxyEnv i) purl = rr at hs hlog
    cases hs <;> simp [Proxy.proxyAddr] at hlog
    all_goals exact ⟨_, _, _, hlog.1.symm⟩

/-- every socket-module call of the address loop is an item of a non-empty connection phase -/
theorem calls_in_phaseItems (i : Inputs) (c : Connect.Call) (hc : c ∈ (Connect.connectSock i.gai).2)
    (hne : (connectLog i).isEmpty = false) : Item.sock c ∈ phaseItems i := by
  unfold phaseItems
  refine List.mem_append_left _ ?_
  cases hlog : connectLog i with
  | nil => rw [hlog] at hne; cases hne
  | cons y t =>
    obtain ⟨h0, p0, s0, rfl⟩ := connectLog_head i y t hlog
    rw [List.flatMap_cons]
    refine List.mem_append_left _ ?_
    simp only [expand, List.mem_cons, reduceCtorEq, false_or]
    exact List.mem_map_of_mem hc

open Lomond.Proxy in
/-- with a usable proxy URL `_connect_sock` is called: the connection-phase log is not empty -/
theorem connectLog_nonempty (i : Inputs) (purl : Str) (hc : proxyChoice i.ws = some purl)
    (hurl : ∃ u p, parseUrl purl = some u ∧ u.port = some p) : (connectLog i).isEmpty = false := by
  obtain ⟨u0, p0, hu0, hp0⟩ := hurl
  rw [connectLog_proxy i purl hc]
  have hs := connectProxy_shape i.ws (proxyEnv i) purl
  generalize connectProxy i.ws (proxyEnv i) purl = rr at hs
  cases hs with
  | badUrl h => rw [h] at hu0; cases hu0
  | badPort u h1 h2 => rw [h1] at hu0; cases hu0; rw [h2] at hp0; cases hp0
  | _ => simp

/-- membership in a list of socket-module items -/
theorem sock_mem_flatMap_expand (i : Inputs) (c : Connect.Call) (l : List Proxy.Io)
    (h : Item.sock c ∈ l.flatMap (expand i)) : c ∈ (Connect.connectSock i.gai).2 := by
  obtain ⟨y, _, hm⟩ := List.mem_flatMap.mp h
  cases y <;> simp [expand] at hm
  exact hm

end Lomond.ConnectLink
