/-
  Token-level model of permessage-deflate (RFC 7692 over RFC 1951), at the level where the
  property's logic lives: LZ77 token streams, sliding windows, per-message framing, context
  takeover vs. reset, and the end-of-stream behaviour of zlib's decompression object.

  zlib itself is not modelled: a *compressor* is **any** function from (history, message) to a
  token list that parses the message with every distance within the history it has seen and at
  most `D` (for zlib with a `2^w` window, `D = maxDist w = 2^w - 262`; for an arbitrary RFC 7692
  peer that promised `server_max_window_bits = w`, `D = 2^w`).  Huffman coding, block splitting
  and bit packing are the same bijection on both sides and are left out here (the executable
  bit-level inflater is `Model/Inflate.lean`).

  Histories handed to the decoders are *newest byte first* (so "`d` bytes back" is index `d-1`
  and "keep the last `n` bytes" is `take n`); messages at the interfaces are in natural order.
-/
import Lomond.Model.Basic

namespace Lomond.Deflate

inductive Token
  | lit (b : Nat)
  | copy (dist len : Nat)
  deriving Repr, DecidableEq, Inhabited

/-- zlib `MAX_DIST(s) = w_size - MIN_LOOKAHEAD` (`MIN_LOOKAHEAD = MAX_MATCH + MIN_MATCH + 1 = 262`):
    the farthest a match emitted by `deflate` with a `2^w` window reaches back -/
def maxDist (w : Nat) : Nat := 2 ^ w - 262

/-- `Deflate.reset_compressor`: `zlib.compressobj(..., -max(9, self.compress_wbits))` -/
def clientWbits (cw : Nat) : Nat := max 9 cw

/-- the bytes a `copy d n` emits (newest first) after history `rh` (newest first); a copy may
    overlap what it is emitting -/
def emitCopy (d : Nat) (rh : Bytes) : Nat → Bytes
  | 0 => []
  | n + 1 => (emitCopy d rh n ++ rh).getD (d - 1) 0 :: emitCopy d rh n

/-- one token against the history `rh`, distances up to `limit`: emitted bytes (newest first);
    `none` = "invalid distance too far back" -/
def tokOut (limit : Nat) (rh : Bytes) : Token → Option Bytes
  | .lit b => some [b]
  | .copy d n => if 1 ≤ d ∧ d ≤ limit ∧ d ≤ rh.length then some (emitCopy d rh n) else none

/-- what a token list *means* after the complete history `rh` (nothing is forgotten), every
    distance at most `limit`: the bytes it stands for, newest first -/
def expand (limit : Nat) : Bytes → List Token → Option Bytes
  | _, [] => some []
  | rh, t :: ts =>
    match tokOut limit rh t with
    | none => none
    | some e =>
      match expand limit (e ++ rh) ts with
      | none => none
      | some out => some (out ++ e)

/-- an inflater with a `wsize`-byte window `win` (newest first, at most `wsize` long):
    (window afterwards, bytes emitted newest first); fails on a distance beyond the window or
    beyond what it still holds -/
def inflTokens (wsize : Nat) : Bytes → List Token → Option (Bytes × Bytes)
  | win, [] => some (win, [])
  | win, t :: ts =>
    match tokOut wsize win t with
    | none => none
    | some e =>
      match inflTokens wsize ((e ++ win).take wsize) ts with
      | none => none
      | some (w', out) => some (w', out ++ e)

/-- **any** compressor whose matches reach back at most `D` bytes and never beyond the history
    it was given: `comp hist msg` parses `msg` after `hist` (both oldest byte first) -/
structure Compressor (D : Nat) where
  comp : Bytes → Bytes → List Token
  sound : ∀ hist msg, expand D hist.reverse (comp hist msg) = some msg.reverse

/-- the sending side over a message history: context kept (`reset = false`, context takeover) or
    renewed after every message (`…_no_context_takeover`) -/
def senderTokens {D : Nat} (c : Compressor D) (reset : Bool) : Bytes → List Bytes → List (List Token)
  | _, [] => []
  | hist, m :: ms => c.comp hist m :: senderTokens c reset (if reset then [] else hist ++ m) ms

/-- the receiving side: one inflater over the whole history, window kept or renewed per message;
    `none` as soon as one message cannot be inflated -/
def receiverOutputs (wsize : Nat) (reset : Bool) : Bytes → List (List Token) → Option (List Bytes)
  | _, [] => some []
  | win, ts :: rest =>
    match inflTokens wsize win ts with
    | none => none
    | some (w', out) =>
      match receiverOutputs wsize reset (if reset then [] else w') rest with
      | none => none
      | some outs => some (out.reverse :: outs)

/-! ### blocks, BFINAL, per-message framing -/

/-- a DEFLATE block: its BFINAL bit and its tokens (block type and code tables are transparent) -/
structure Blk where
  final : Bool
  toks : List Token
  deriving Repr, DecidableEq, Inhabited

/-- `00 00 ff ff`: the empty stored block a sync flush ends with -/
def tailBlk : Blk := { final := false, toks := [] }

/-- sender: the message's blocks are followed by the sync-flush tail, which is then stripped -/
def strip (bs : List Blk) : List Blk := bs.dropLast
/-- receiver: the tail is appended again before inflating -/
def unstrip (bs : List Blk) : List Blk := bs ++ [tailBlk]

/-- blocks in turn until one has BFINAL=1 (blocks after it are not looked at):
    (window afterwards, emitted newest first, end-of-stream reached) -/
def inflBlocks (wsize : Nat) : Bytes → List Blk → Option (Bytes × Bytes × Bool)
  | win, [] => some (win, [], false)
  | win, b :: bs =>
    match inflTokens wsize win b.toks with
    | none => none
    | some (w', e) =>
      if b.final then some (w', e, true)
      else
        match inflBlocks wsize w' bs with
        | none => none
        | some (w'', e', fin) => some (w'', e' ++ e, fin)

/-- zlib's decompression object: window + "Z_STREAM_END seen" -/
structure ZObj where
  win : Bytes := []
  finished : Bool := false
  deriving Repr, DecidableEq, Inhabited

/-- `decompressobj.decompress(data)`: after end-of-stream everything is ignored and `b''` returned -/
def ZObj.feed (wsize : Nat) (o : ZObj) (bs : List Blk) : Option (ZObj × Bytes) :=
  if o.finished then some (o, [])
  else
    match inflBlocks wsize o.win bs with
    | none => none
    | some (w', e, fin) => some ({ win := w', finished := fin }, e.reverse)

/-- `Deflate.decompress` as lomond does it: one object for the connection (`reset = false`) or a
    new one after every message; every message is fed followed by the tail -/
def objectOutputs (wsize : Nat) (reset : Bool) : ZObj → List (List Blk) → Option (List Bytes)
  | _, [] => some []
  | o, m :: rest =>
    match o.feed wsize (unstrip m) with
    | none => none
    | some (o', out) =>
      match objectOutputs wsize reset (if reset then {} else o') rest with
      | none => none
      | some outs => some (out :: outs)

/-- every block of the list in turn, BFINAL or not: (window afterwards, emitted newest first).
    A BFINAL=1 block ends a *deflate stream*; per RFC 7692 §7.2.3.4 such blocks may occur in a
    message, and what follows belongs to the message all the same, with the same LZ77 window. -/
def inflBlocksAll (wsize : Nat) : Bytes → List Blk → Option (Bytes × Bytes)
  | win, [] => some (win, [])
  | win, b :: bs =>
    match inflTokens wsize win b.toks with
    | none => none
    | some (w', e) =>
      match inflBlocksAll wsize w' bs with
      | none => none
      | some (w'', e') => some (w'', e' ++ e)

/-- what RFC 7692 §7.2.2 asks for: every message is inflated on its own — all of its DEFLATE
    blocks — and only the LZ77 window is carried over (a BFINAL=1 block, §7.2.3.4, ends a deflate
    stream, not the message and not the context) -/
def rfcOutputs (wsize : Nat) (reset : Bool) : Bytes → List (List Blk) → Option (List Bytes)
  | _, [] => some []
  | win, m :: rest =>
    match inflBlocksAll wsize win (unstrip m) with
    | none => none
    | some (w', e) =>
      match rfcOutputs wsize reset (if reset then [] else w') rest with
      | none => none
      | some outs => some (e.reverse :: outs)

/-! #### the repaired `Deflate.decompress` (fix of D6) -/

/-- one zlib object started with window `win`: the blocks up to and including the first
    BFINAL=1 block; the blocks after it are its `unused_data` -/
def inflStream (wsize : Nat) : Bytes → List Blk → Option (Bytes × Bytes × List Blk)
  | win, [] => some (win, [], [])
  | win, b :: bs =>
    match inflTokens wsize win b.toks with
    | none => none
    | some (w', e) =>
      if b.final then some (w', e, bs)
      else
        match inflStream wsize w' bs with
        | none => none
        | some (w'', e', rest) => some (w'', e' ++ e, rest)

/-- `Deflate._inflate`: feed the object; while it leaves `unused_data`, replace it by a new object
    primed with the most recent `wsize` bytes of output and feed that the remainder -/
def repairedFeed (wsize : Nat) : Nat → Bytes → List Blk → Option (Bytes × Bytes)
  | 0, win, _ => some (win, [])
  | fuel + 1, win, bs =>
    match inflStream wsize win bs with
    | none => none
    | some (w', e, []) => some (w', e)
    | some (w', e, r :: rest) =>
      match repairedFeed wsize fuel w' (r :: rest) with
      | none => none
      | some (w'', e') => some (w'', e' ++ e)

/-- the repaired `Deflate.decompress` over a message history (an object that ended exactly at the
    end of a message is replaced, primed with the same window, at the next feed) -/
def repairedOutputs (wsize : Nat) (reset : Bool) : Bytes → List (List Blk) → Option (List Bytes)
  | _, [] => some []
  | win, m :: rest =>
    match repairedFeed wsize ((unstrip m).length + 1) win (unstrip m) with
    | none => none
    | some (w', e) =>
      match repairedOutputs wsize reset (if reset then [] else w') rest with
      | none => none
      | some outs => some (e.reverse :: outs)

/-- the core model's formulation (`Core.inflateMessage`): inflate the *whole compressed history*
    from scratch and deliver what is new; state = (history of blocks, bytes already delivered) -/
def wholeOutputs (wsize : Nat) (reset : Bool) : List Blk → Nat → List (List Blk) → Option (List Bytes)
  | _, _, [] => some []
  | hist, done, m :: rest =>
    match inflBlocks wsize [] (hist ++ unstrip m) with
    | none => none
    | some (_, e, _) =>
      match (if reset then wholeOutputs wsize reset [] 0 rest
             else wholeOutputs wsize reset (hist ++ unstrip m) e.length rest) with
      | none => none
      | some outs => some (e.reverse.drop done :: outs)

/-- the core model's formulation with the inflater of the repaired code (`Inflate.inflateAllSafe`:
    a BFINAL=1 block does not end the history) -/
def wholeOutputsSafe (wsize : Nat) (reset : Bool) : List Blk → Nat → List (List Blk) → Option (List Bytes)
  | _, _, [] => some []
  | hist, done, m :: rest =>
    match inflBlocksAll wsize [] (hist ++ unstrip m) with
    | none => none
    | some (_, e) =>
      match (if reset then wholeOutputsSafe wsize reset [] 0 rest
             else wholeOutputsSafe wsize reset (hist ++ unstrip m) e.length rest) with
      | none => none
      | some outs => some (e.reverse.drop done :: outs)

end Lomond.Deflate
