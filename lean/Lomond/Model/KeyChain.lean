/-
  C17: the handshake-key schedule of ONE `WebSocket` object over its whole life.

  `WebSocket.State.__init__` runs `self.key = b64encode(os.urandom(16))`; the constructor and every
  `connect()` (through `reset()`) build a new `State`.  A *nonce source* is a function
  `src : Nat → Bytes`: `src k` is what the k-th call of `os.urandom(16)` made on behalf of this object
  returns (k = 0: the constructor's `State`, whose key is never sent; k ≥ 1: `connect()` number k).

  * `keyOf src k`      — the key of draw k (`b64encode (src k)`);
  * `keys src n`       — the keys of draws `0 .. n-1`, in order;
  * `requestOf cl src k` — the upgrade request `connect()` number k writes;
  * `connectStep`      — what `connect()` does to the key, READ OFF THE SOURCE FACTS
    (`Generated/Facts.lean`, regenerated from /repo on every run): a new draw if `connect()` begins
    with `reset()`, `reset()` assigns a new `State`, the initialiser of `State.key` is the text
    `b64encode(os.urandom(16))`, it is the only initialiser of `State` that asks for random bytes, and no
    method of `WebSocket` assigns `state.key` afterwards; otherwise the stale key stays.
  * `pooled block`     — the nonce source of a pool of `block.length / 16` nonces handed out
    cyclically (seeded change C17-r4m1), the counter-model of the property.

  No proofs here (`Properties/C17_Keys.lean`).
-/
import Lomond.Model.Handshake
import Lomond.Generated.Facts

namespace Lomond.KeyChain
open Lomond Lomond.Http Lomond.Handshake

/-- the key made from draw `k` -/
def keyOf (src : Nat → Bytes) (k : Nat) : Bytes := b64encode (src k)

/-- the keys of draws `0 .. n-1` (draw 0 is the constructor's, draws `1 .. n-1` are the `connect()` calls) -/
def keys (src : Nat → Bytes) (n : Nat) : List Bytes := (List.range n).map (keyOf src)

/-- the upgrade request of `connect()` number `k` -/
def requestOf (cl : Client) (src : Nat → Bytes) (k : Nat) : Bytes := buildRequest (cl.reqCfg (keyOf src k))

/-! ### the source facts that make `connect()` draw a new key -/

/-- the text every `State` must be initialised with -/
def freshDrawText : String := "b64encode(os.urandom(16))"

/-- all initialiser expressions of `WebSocket.State.__init__` for `self.key` (source text) -/
def keyInitTexts : List String :=
  (Gen.initValues.filter (fun t => t.1 == "State" && t.2.1 == "key")).map (fun t => t.2.2)

/-- `needle` occurs in `s` -/
def hasSubL (needle : List Char) : List Char → Bool
  | [] => needle.isEmpty
  | c :: r => needle.isPrefixOf (c :: r) || hasSubL needle r

def hasSub (needle s : String) : Bool := hasSubL needle.toList s.toList

/-- the attributes of `State` whose initialiser asks for random bytes -/
def randomStateAttrs : List String :=
  (Gen.initValues.filter (fun t => t.1 == "State" && hasSub "urandom" t.2.2)).map (fun t => t.2.1)

/-- no method of `WebSocket` assigns the key of an existing `State` (nor shadows the `key` property) -/
def keyNeverReassigned : Bool :=
  Gen.wsWrites.all (fun w => w.2 != "state.key" && w.2 != "key")

/-- `connect()` → `reset()` → `State()` → exactly one `os.urandom(16)`, encoded, kept -/
def drawsFresh : Bool :=
  Gen.connectResetsFirst && Gen.resetAssignsState && (keyInitTexts == [freshDrawText]) &&
    (randomStateAttrs == ["key"]) && keyNeverReassigned

/-- `connect()` on the key state, as far as the source facts determine it: a new draw, or the stale key -/
def connectStep (src : Nat → Bytes) (w : KeyState) : KeyState :=
  if drawsFresh then freshState src w.draws else w

/-- the object after `n` calls of `connect()` (fact-driven) -/
def chain (src : Nat → Bytes) : Nat → KeyState
  | 0 => newWebSocket src
  | n + 1 => connectStep src (chain src n)

/-! ### the counter-model: a pool of nonces that wraps (seeded change C17-r4m1) -/

/-- nonce `k` of a pool that holds `block.length / 16` nonces (at least one) and hands them out cyclically -/
def pooled (block : Bytes) (k : Nat) : Bytes :=
  (block.drop (16 * (k % (block.length / 16)))).take 16

/-! ### driver: `http keychain <hex of the concatenated 16-byte nonces>` ↦ the keys, hex, blank-separated -/

/-- split into 16-byte nonces (a shorter tail is kept as it is) -/
def chunks16 : Nat → Bytes → List Bytes
  | 0, _ => []
  | fuel + 1, bs => if bs = [] then [] else bs.take 16 :: chunks16 fuel (bs.drop 16)

/-- the nonce source that replays a recorded list of nonces -/
def replay (ns : List Bytes) (k : Nat) : Bytes := ns.getD k []

/-- the keys of the whole recorded chain: draw 0 (constructor), then one per `connect()` -/
def chainKeys (nonces : Bytes) : List Bytes :=
  let ns := chunks16 nonces.length nonces
  (List.range ns.length).map (fun k => (chain (replay ns) k).key)

end Lomond.KeyChain
