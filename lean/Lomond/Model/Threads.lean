/-
  Thread interleaving model (properties C11, C12): a small-step semantics of several threads
  calling the send methods / `close()` of ONE WebSocket while the event loop thread writes its own
  frames (auto-pong, auto-ping, the echo of a server Close) and processes a server Close.

  Shared objects (DESIGN Appendix C): `state.closing`, `state.closed`, `session._sock`,
  `session._lock`, the socket's byte stream, `state.compression._compressobj`.
  A call is compiled to its list of *sync steps*: the accesses to those objects, in program order.
  Everything else a call does (argument checks, building and masking a private copy of the frame,
  logging) is thread-local, commutes with every step of every other thread, and is elided.
  Argument checking (TypeError / ValueError, C03) happens before the first sync step; calls are
  assumed to have passed it.

  A schedule is a `List Tid`; entry `t` lets thread `t` execute its next sync step.  An entry for
  a thread that waits for the held lock, that has finished, or that does not exist is a no-op.

  The socket write itself is split in two steps (`write1`, `write2`: first and second half of
  the frame's bytes), so that a torn frame is representable: the wire is a list of `Chunk`s.

  The deflate context is abstract (zlib is a parameter, never an axiom): the compression object
  holds the bytes it has emitted so far (`zctx`) and the bytes fed by `compress()` since the last
  `flush()` (`zpend`); a flush emits a block described by `(context before, content)`.  The peer
  can inflate such a block iff its own context equals `context before` (`peerDecode`).

  Variants: the pinned code is `{}`; `compressUnderLock` and `closeAtomic` are the hypothetical
  repairs of findings D7 and D8.

  Tie to the code: `harness/sched.py` runs the real library under a deterministic scheduler and
  logs every access to the shared objects; `harness/thrutil.py` compares, per (programs, schedule),
  that log with the model's step trace (`Driver.Thr.traceOf`), every chunk written, the per-call
  results and the final flags.  The step lists below were written from those logs.

  A write on a socket that the loop thread has already shut (`sockShut`: the window between the `shutdown(); close()`
  of `_close_socket()` and its `_sock = None` / the `closed = True` of `on_disconnect`, in which `_check_writable` still
  lets a sender through) fails: `TransportFail`, nothing written (`failWrite`).  Injected socket write failures
  and a `sendall` of any number of chunks are in `Model/ThreadsN.lean` (the same states and programs, a more general
  socket; this file is its instance "two chunks, no injected failure").  Not modelled: the 1002 Close of a protocol error and
  `session.close()` called by the application (single-threaded paths: C04, C08, C09, C13); the
  loop thread's tests of `closed` / `_sock` never branch (it is their only writer and stops after
  writing them).

  Two loop calls reach outside the established connection: `.connect` (the run starts in `initPre`, BEFORE
  the event loop is first advanced: no socket; the loop thread stores the socket, writes the HTTP request
  through `session.write` and reads the reply, or — the request refused because a racing `close()` has set
  `closing`, or failed — closes the socket and ends) and `.abandon` (the consumer closes the event generator:
  `on_disconnect` + `_close_socket()` on the loop thread while other threads are inside their sends).  The
  request is written by the same `session.write` as a frame; on the wire it stands as a placeholder frame
  (opcode 0, empty payload): its position is modelled, its bytes are not.
-/
import Lomond.Model.Basic
import Lomond.Model.Frame

namespace Lomond.Threads
open Lomond

abbrev Tid := Nat

structure Variant where
  /-- D7 repaired: `compress()`, `flush()`, the optional reset and the socket write happen under
      one acquisition of the write lock, after the state checks (this is the step order of
      `notes/fix-D7.patch`: `with self._lock: _check_writable(); compress(data); _sendall(frame)`;
      the harness observes which shape the code has and drives the model with the matching flag) -/
  compressUnderLock : Bool := false
  /-- D8 repaired (the step order of `notes/fix-D8.patch`): `session.write` stores `closing = True`
      under the write lock right after it has written a Close frame; `_check_writable` reads
      `closing` before `closed` (keeping the precedence of the errors); the reply path and
      `on_disconnect` store `closed = True` before `closing = False` -/
  closeAtomic : Bool := false
  deriving Repr, DecidableEq, Inhabited

structure Cfg where
  /-- permessage-deflate was negotiated -/
  deflate : Bool := false
  /-- `client_no_context_takeover`: the compressor is reset after every message -/
  noTakeover : Bool := false
  /-- masking key of the frame built by call `idx` of thread `tid` -/
  key : Tid → Nat → Bytes := fun _ _ => [0, 0, 0, 0]
  /-- zlib: bytes of the block emitted by a sync flush, given (context, content); minus the tail -/
  zenc : Bytes → Bytes → Bytes := fun _ _ => []
  /-- `server_no_context_takeover`: the decompressor is reset after every received message -/
  serverNoTakeover : Bool := false

inductive Call
  /-- `send_text(text, compress)`; `payload` is the UTF-8 encoding of the text -/
  | sendText (payload : Bytes) (compress : Bool)
  | sendBinary (payload : Bytes) (compress : Bool)
  | sendPing (data : Bytes)
  | sendPong (data : Bytes)
  | close (code : Option Nat) (reason : Bytes)
  /-- event loop: a server Ping is read; `_on_event` answers it (`auto_pong`) -/
  | onPing (data : Bytes)
  /-- event loop: a server Close is read (`_on_close`): echo it, or complete our own close -/
  | onClose (code : Option Nat) (reason : Bytes)
  /-- event loop: the ping timer fires in `_check_auto_ping` -/
  | autoPing
  /-- event loop: a COMPRESSED data message from the server is read, one frame (`d` = its content as
      the inflater returns it); `Message.build` inflates it with `Deflate.decompress`: one `_inflate`
      per frame, then one for the `00 00 ff ff` tail.  Nothing is written. -/
  | onData (d : Bytes)
  /-- the same for a message in two fragments -/
  | onData2 (d1 d2 : Bytes)
  /-- event loop, BEFORE the connection exists (first call of the loop thread, state `initPre`): `run()` from the
      top — `self._sock = sock`, `_send_request()` = `session.write(request)`, then either the read of the
      server's reply (`Connected`, `Ready`, `Poll`) or, when the request write was refused / failed,
      `_close_socket()` and `ConnectFail` (the loop ends).  The request goes through the same `sendall` under the
      same lock as a frame: on the model's wire it occupies the place of a frame with opcode 0 and an empty
      payload (a placeholder: where the request stands on the wire is modelled, its bytes are not). -/
  | connect
  /-- event loop, connection established: the consumer walks away — the loop thread closes the event generator
      (`gen.close()`): GeneratorExit at the `yield` inside `for event in self.websocket.feed(data)`; the `feed`
      generator is finalised first (`on_disconnect(state)`: `session.close()`, `closed = True`, `closing = False`),
      then `run()`'s `finally: self._close_socket()` -/
  | abandon
  deriving Repr, DecidableEq, Inhabited

/-- the WebSocketError raised inside `session.write`; `transport` = `TransportFail` raised by
    `_sendall` when the socket's `sendall` fails: in this file only on a socket that has been shut
    (`sockShut`, see `failWrite`); the generalised socket of `Model/ThreadsN.lean` can also be told to fail -/
inductive Err
  | unavailable | closed | closing | transport
  deriving Repr, DecidableEq, Inhabited

inductive PaySrc
  | lit (b : Bytes)
  /-- the thread-local `_payload` returned by `Deflate.compress` -/
  | zreg
  deriving Repr, DecidableEq, Inhabited

structure FrameSrc where
  op : Nat
  src : PaySrc
  deriving Repr, DecidableEq, Inhabited

inductive Payload
  | plain (b : Bytes)
  /-- a deflate block: compressor context when it was produced, and what it inflates to -/
  | deflated (ctx : Bytes) (out : Bytes)
  deriving Repr, DecidableEq, Inhabited

structure FrameDesc where
  op : Nat
  pay : Payload
  deriving Repr, DecidableEq, Inhabited

/-- one `send()` system call worth of bytes: half of the frame built by call `idx` of `tid` -/
structure Chunk where
  tid : Tid
  idx : Nat
  second : Bool
  desc : FrameDesc
  deriving Repr, DecidableEq, Inhabited

/-- alternative continuations of a branching step -/
inductive Alt
  /-- `_on_close` while closing: the server answered our Close -/
  | replyClose
  /-- `run()`: `_send_request()` raised a WebSocketError: `_close_socket()`, `ConnectFail`, return -/
  | connectFail
  deriving Repr, DecidableEq, Inhabited

inductive Step
  /-- `if self._sock is None` in `_recv` / `_close_socket` (the loop thread owns `_sock`) -/
  | rdSock
  /-- `is_closed` tested by the loop thread (`feed`, `_on_close`, `while not is_closed`); the loop
      thread is the only writer of `closed` and stops after writing it, so the test is `False` -/
  | rdClosed
  /-- `close()`: `if self.is_closed:` ⇒ nothing more to do -/
  | retIfClosed
  /-- `close()`: `if not self.is_closing:` else nothing more to do -/
  | retIfClosing
  /-- `_on_close`: `if self.is_closing:` take the alternative continuation -/
  | brIfClosing (alt : Alt)
  | compress (data : Bytes)
  | flush
  | zreset
  | acquire
  | chkSock | chkClosed | chkClosing
  /-- repaired `_check_writable`: `is_closing = self.websocket.is_closing` (a thread-local copy) -/
  | ldClosing
  /-- repaired `_check_writable`: `if is_closed: raise Closed` then `if <copy>: raise Closing` -/
  | chkBoth
  | write1 (f : FrameSrc)
  | write2 (f : FrameSrc)
  | release
  | setClosing (b : Bool)
  | setClosed
  | setCloseTime
  /-- `shutdown(); close()` on the socket object -/
  | sockClose
  /-- `self._sock = None` -/
  | setSockNone
  /-- receive side, event-loop thread only (`Deflate._inflate`): `self._decompressobj.decompress(data)`;
      `d` = what comes out.  Touches the DEcompressor only (`C11Src.receive_path_leaves_compressor_alone`) -/
  | inflate (d : Bytes)
  /-- `self._decompressobj.unused_data` (a look at the decompressor) -/
  | dpeek
  /-- `reset_decompressor()` under `server_no_context_takeover` -/
  | dreset
  /-- `self._sock = sock` in `run()`: the socket exists from here on -/
  | setSock
  /-- `run()` after `_send_request()`: the loop thread's next read of one of its own variables — `if self._sock is
      None` in `_close_socket()` when the request write raised (take the alternative continuation, the loop ends),
      `while not websocket.is_closed` otherwise.  Branches on the thread-local outcome of the write only. -/
  | brIfErr (alt : Alt)
  deriving Repr, DecidableEq, Inhabited

/-- the state checks of `session.write` (`_check_writable`) -/
def checks (v : Variant) : List Step :=
  if v.closeAtomic then [.chkSock, .ldClosing, .chkBoth] else [.chkSock, .chkClosed, .chkClosing]

/-- `session.write(frame bytes)`: lock, the three state checks, the write in two halves, unlock -/
def writeProg (v : Variant) (f : FrameSrc) : List Step :=
  [.acquire] ++ checks v ++ [.write1 f, .write2 f, .release]

/-- `send_text` / `send_binary` -/
def sendData (v : Variant) (cfg : Cfg) (op : Nat) (payload : Bytes) (compress : Bool) : List Step :=
  if compress ∧ cfg.deflate then
    let z : List Step := [.compress payload, .flush] ++ (if cfg.noTakeover then [.zreset] else [])
    let f : FrameSrc := ⟨op, .zreg⟩
    if v.compressUnderLock then
      [.acquire] ++ checks v ++ z ++ [.write1 f, .write2 f, .release]
    else z ++ writeProg v f
  else writeProg v ⟨op, .lit payload⟩

/-- `WebSocket.close(code, reason)`: test, send, set (WebSocketErrors of the send are swallowed) -/
def closeBody (v : Variant) (code : Option Nat) (reason : Bytes) : List Step :=
  let f : FrameSrc := ⟨8, .lit (buildClosePayload code reason)⟩
  if v.closeAtomic then
    [.retIfClosed, .retIfClosing, .acquire] ++ checks v ++
      [.write1 f, .write2 f, .setClosing true, .release, .setClosing true, .setCloseTime]
  else [.retIfClosed, .retIfClosing] ++ writeProg v f ++ [.setClosing true, .setCloseTime]

/-- `_close_socket()` as run by the loop thread when the loop ends, then the `finally` clause -/
def closeSocketProg : List Step :=
  [.rdSock, .acquire, .sockClose, .release, .setSockNone, .rdSock]

def altSteps (v : Variant) : Alt → List Step
  | .replyClose =>
    -- `yield Closed; closing = False; closed = True`, `if self.is_closed: break`,
    -- `while not websocket.is_closed`, `_close_socket()`, `finally: _close_socket()`
    if v.closeAtomic then [.setClosed, .setClosing false, .rdClosed, .rdClosed] ++ closeSocketProg
    else [.setClosing false, .setClosed, .rdClosed, .rdClosed] ++ closeSocketProg
  | .connectFail =>
    -- `_close_socket()` (its `if self._sock is None` is the branching step itself): lock, shutdown + close, unlock,
    -- `finally: self._sock = None`; `yield ConnectFail; return`
    [.acquire, .sockClose, .release, .setSockNone]

def compile (v : Variant) (cfg : Cfg) : Call → List Step
  | .sendText p c => sendData v cfg 1 p c
  | .sendBinary p c => sendData v cfg 2 p c
  | .sendPing d => writeProg v ⟨9, .lit d⟩
  | .sendPong d => writeProg v ⟨10, .lit d⟩
  | .close code r => closeBody v code r
  -- `_recv`, `feed`: `if self.is_closed`, the pong, `if self.is_closed: break`, `while not is_closed`
  | .onPing d => [.rdSock, .rdClosed] ++ writeProg v ⟨10, .lit d⟩ ++ [.rdClosed, .rdClosed]
  -- `_recv`, `feed`, `_on_close`: is_closed, is_closing; echo = `close(); closing = True`
  | .onClose code r =>
    [.rdSock, .rdClosed, .rdClosed, .brIfClosing .replyClose] ++ closeBody v code r ++
      [.setClosing true, .rdClosed, .rdClosed]
  | .autoPing => writeProg v ⟨9, .lit []⟩ ++ [.rdClosed]
  -- `_recv`, `feed`: `if self.is_closed`; `Message.build` -> `Deflate.decompress`: `_inflate(frame)` for
  -- every frame, `_inflate(tail)`, the optional reset; `if self.is_closed: break`, `while not is_closed`
  | .onData d =>
    [.rdSock, .rdClosed, .inflate d, .dpeek, .inflate [], .dpeek] ++
      (if cfg.serverNoTakeover then [.dreset] else []) ++ [.rdClosed, .rdClosed]
  | .onData2 d1 d2 =>
    [.rdSock, .rdClosed, .inflate d1, .dpeek, .inflate d2, .dpeek, .inflate [], .dpeek] ++
      (if cfg.serverNoTakeover then [.dreset] else []) ++ [.rdClosed, .rdClosed]
  -- `self._sock = sock`; `session.write(request)`: lock, the state checks, the request (a placeholder frame), unlock;
  -- then (branch) `while not is_closed`, `_recv`: `if self._sock is None`, `feed`: `if self.is_closed`, (Ready, Poll)
  -- `if self.is_closed: break`, `while not is_closed`
  | .connect =>
    [.setSock] ++ writeProg v ⟨0, .lit []⟩ ++ [.brIfErr .connectFail, .rdSock, .rdClosed, .rdClosed, .rdClosed]
  -- `feed`'s GeneratorExit handler: `on_disconnect(state)` = `session.close()` (`_close_socket()`: test, lock,
  -- shutdown + close, unlock, `finally: _sock = None`; `self._sock = None`), the two flag stores; then `run()`'s
  -- `finally: _close_socket()` (its test finds no socket)
  | .abandon =>
    [.rdSock, .acquire, .sockClose, .release, .setSockNone, .setSockNone] ++
      (if v.closeAtomic then [.setClosed, .setClosing false] else [.setClosing false, .setClosed]) ++ [.rdSock]

/-- the application message a call sends (what the peer must end up with) -/
def Call.msg : Call → Bytes
  | .sendText p _ => p
  | .sendBinary p _ => p
  | .sendPing d => d
  | .sendPong d => d
  | .close code r => buildClosePayload code r
  | .onPing d => d
  | .onClose code r => buildClosePayload code r
  | .autoPing => []
  | .onData _ => []
  | .onData2 _ _ => []
  | .connect => []
  | .abandon => []

def Call.op : Call → Nat
  | .sendText _ _ => 1
  | .sendBinary _ _ => 2
  | .sendPing _ => 9
  | .sendPong _ => 10
  | .close _ _ => 8
  | .onPing _ => 10
  | .onClose _ _ => 8
  | .autoPing => 9
  | .onData _ => 0
  | .onData2 _ _ => 0
  | .connect => 0
  | .abandon => 0

structure Shared where
  closing : Bool := false
  closed : Bool := false
  sockOpen : Bool := true
  sockShut : Bool := false
  lock : Option Tid := none
  wire : List Chunk := []
  zpend : Bytes := []
  zctx : Bytes := []
  /-- who stored `sent_close_time` last -/
  closeTime : Option Tid := none
  /-- the DEcompressor of the receive side: what it has inflated since it was created -/
  dctx : Bytes := []
  deriving Repr, DecidableEq, Inhabited

/-- outcome of a finished call -/
structure Result where
  /-- the call's frame was written completely -/
  wrote : Bool
  /-- WebSocketError raised in `session.write` (swallowed by `close()` and by the loop) -/
  err : Option Err
  /-- the call took its alternative continuation (`_on_close` completing our own close) -/
  alt : Bool := false
  deriving Repr, DecidableEq, Inhabited

/-- the call in progress -/
structure Cur where
  idx : Nat
  rest : List Step
  err : Option Err := none
  wrote : Bool := false
  /-- `_payload`: what `flush()` returned (context, content) -/
  zout : Option (Bytes × Bytes) := none
  /-- the event loop ends with this call -/
  halt : Bool := false
  /-- `is_closing` as read by the repaired `_check_writable` -/
  ldc : Bool := false
  deriving Repr, DecidableEq, Inhabited

structure Thread where
  prog : List Call := []
  /-- number of finished calls -/
  pc : Nat := 0
  cur : Option Cur := none
  results : List Result := []
  halted : Bool := false
  deriving Repr, DecidableEq, Inhabited

structure State where
  sh : Shared := {}
  th : Tid → Thread := fun _ => {}

/-- the rest of the thread's program after `close()` returns -/
def afterClose : List Step → List Step
  | [] => []
  | .setCloseTime :: r => r
  | _ :: r => afterClose r

/-- an exception inside `with self._lock:` continues at the release -/
def toRelease : List Step → List Step
  | [] => []
  | .release :: r => .release :: r
  | _ :: r => toRelease r

def descOf (f : FrameSrc) (c : Cur) : FrameDesc :=
  match f.src with
  | .lit b => ⟨f.op, .plain b⟩
  | .zreg =>
    match c.zout with
    | some (ctx, out) => ⟨f.op, .deflated ctx out⟩
    | none => ⟨f.op, .deflated [] []⟩

/-- `self._sock.sendall(data)` raises: `TransportFail`, out of the `with` block through the release; nothing is
    written.  Happens when the socket has been shut (`sockShut`: a `send()` on a socket after `shutdown(); close()`
    raises EBADF) and, in `Model/ThreadsN.lean`, when the environment makes the `sendall` fail -/
def failWrite (r : List Step) (sh : Shared) (c : Cur) : Shared × Cur :=
  (sh, { c with rest := toRelease r, err := some .transport })

/-- thread `t` executes sync step `st` (the head of its program; `r` is what follows) -/
def exec (v : Variant) (t : Tid) (st : Step) (r : List Step) (sh : Shared) (c : Cur) : Shared × Cur :=
  match st with
  | .rdSock => (sh, { c with rest := r })
  | .rdClosed => (sh, { c with rest := r })
  | .retIfClosed => (sh, { c with rest := if sh.closed then afterClose r else r })
  | .retIfClosing => (sh, { c with rest := if sh.closing then afterClose r else r })
  | .brIfClosing a =>
    if sh.closing then (sh, { c with rest := altSteps v a, halt := true }) else (sh, { c with rest := r })
  | .compress d => ({ sh with zpend := sh.zpend ++ d }, { c with rest := r })
  | .flush =>
    ({ sh with zctx := sh.zctx ++ sh.zpend, zpend := [] }, { c with rest := r, zout := some (sh.zctx, sh.zpend) })
  | .zreset => ({ sh with zctx := [], zpend := [] }, { c with rest := r })
  | .acquire => ({ sh with lock := some t }, { c with rest := r })
  | .chkSock =>
    if sh.sockOpen then (sh, { c with rest := r })
    else (sh, { c with rest := toRelease r, err := some .unavailable })
  | .chkClosed =>
    if sh.closed then (sh, { c with rest := toRelease r, err := some .closed })
    else (sh, { c with rest := r })
  | .chkClosing =>
    if sh.closing then (sh, { c with rest := toRelease r, err := some .closing })
    else (sh, { c with rest := r })
  | .ldClosing => (sh, { c with rest := r, ldc := sh.closing })
  | .chkBoth =>
    if sh.closed then (sh, { c with rest := toRelease r, err := some .closed })
    else if c.ldc then (sh, { c with rest := toRelease r, err := some .closing })
    else (sh, { c with rest := r })
  | .write1 f =>
    if sh.sockShut then failWrite r sh c
    else ({ sh with wire := sh.wire ++ [⟨t, c.idx, false, descOf f c⟩] }, { c with rest := r })
  | .write2 f =>
    if sh.sockShut then failWrite r sh c
    else ({ sh with wire := sh.wire ++ [⟨t, c.idx, true, descOf f c⟩] }, { c with rest := r, wrote := true })
  | .release => ({ sh with lock := none }, { c with rest := r })
  | .setClosing b => ({ sh with closing := b }, { c with rest := r })
  | .setClosed => ({ sh with closed := true }, { c with rest := r })
  | .setCloseTime => ({ sh with closeTime := some t }, { c with rest := r })
  | .sockClose => ({ sh with sockShut := true }, { c with rest := r })
  | .setSockNone => ({ sh with sockOpen := false }, { c with rest := r })
  | .inflate d => ({ sh with dctx := sh.dctx ++ d }, { c with rest := r })
  | .dpeek => (sh, { c with rest := r })
  | .dreset => ({ sh with dctx := [] }, { c with rest := r })
  | .setSock => ({ sh with sockOpen := true }, { c with rest := r })
  | .brIfErr a =>
    if c.err.isSome then (sh, { c with rest := altSteps v a, halt := true }) else (sh, { c with rest := r })

def setTh (s : State) (t : Tid) (th : Thread) (sh : Shared) : State :=
  { sh := sh, th := fun u => if u = t then th else s.th u }

/-- the call in progress of a thread, loading the next call of its program if there is none -/
def Thread.current (v : Variant) (cfg : Cfg) (th : Thread) : Option Cur :=
  if th.halted then none
  else
    match th.cur with
    | some c => some c
    | none =>
      match th.prog[th.pc]? with
      | none => none
      | some call => some { idx := th.pc, rest := compile v cfg call }

/-- the thread cannot take its next step now: it wants the lock and the lock is held -/
def blockedOn (sh : Shared) (c : Cur) : Bool :=
  match c.rest with
  | .acquire :: _ => sh.lock.isSome
  | _ => false

/-- after a step: store the call in progress, or record its result when it is over -/
def settle (th : Thread) (c : Cur) : Thread :=
  if c.rest = [] then
    { th with cur := none, pc := th.pc + 1, results := th.results ++ [⟨c.wrote, c.err, c.halt⟩],
              halted := th.halted || c.halt }
  else { th with cur := some c }

/-- one schedule entry -/
def step (v : Variant) (cfg : Cfg) (s : State) (t : Tid) : State :=
  match (s.th t).current v cfg with
  | none => s
  | some c =>
    match c.rest with
    | [] => s            -- not reachable: every call has at least one sync step
    | st :: r =>
      if blockedOn s.sh c then s
      else
        let p := exec v t st r s.sh c
        setTh s t (settle (s.th t) p.2) p.1

def run (v : Variant) (cfg : Cfg) (s : State) (sched : List Tid) : State :=
  sched.foldl (step v cfg) s

def init (progs : Tid → List Call) : State :=
  { sh := {}, th := fun t => { prog := progs t } }

/-- the state BEFORE the event loop is first advanced: no socket yet (`session._sock is None`); the loop thread's
    program starts with `.connect` -/
def initPre (progs : Tid → List Call) : State :=
  { sh := { sockOpen := false }, th := fun t => { prog := progs t } }

/-- programs given as a list: thread `i` runs `ps[i]` -/
def progsOf (ps : List (List Call)) : Tid → List Call := fun t => ps.getD t []

/-! ### observations on the wire -/

/-- the frames written completely, in wire order (a frame is complete when its second half is out) -/
def frames (w : List Chunk) : List Chunk := w.filter (·.second)

/-- the two chunks of each frame, in order: what a wire made of whole frames looks like -/
def pairs : List Chunk → List Chunk
  | [] => []
  | c :: r => { c with second := false } :: c :: pairs r

/-- the wire is a sequence of whole frames, except possibly for a last first half -/
def wholeFrames (w : List Chunk) : Bool :=
  w = pairs (frames w) ||
    match w.getLast? with
    | some c => !c.second && w = pairs (frames w) ++ [c]
    | none => false

def isClose (c : Chunk) : Bool := c.desc.op = 8
def isData (c : Chunk) : Bool := c.desc.op = 1 || c.desc.op = 2

/-- Close frames on the wire -/
def closeCount (w : List Chunk) : Nat := ((frames w).filter isClose).length

/-- nothing (not even a first half) follows the first chunk of a Close frame other than its own
    second half -/
def nothingAfterClose : List Chunk → Bool
  | [] => true
  | c :: r =>
    if isClose c then
      match r with
      | [] => true
      | [d] => d.second && d.tid = c.tid && d.idx = c.idx && !c.second
      | _ => false
    else nothingAfterClose r

/-- the peer's inflater, abstractly: a deflate block is decodable iff it was produced in the
    context the peer has reached; result = the messages in wire order, tagged with their call -/
def peerDecode (noTakeover : Bool) : Bytes → List Chunk → Option (List (Tid × Nat × Bytes))
  | _, [] => some []
  | ctx, f :: r =>
    match f.desc.pay with
    | .plain b => (peerDecode noTakeover ctx r).map ((f.tid, f.idx, b) :: ·)
    | .deflated c out =>
      if c = ctx then
        (peerDecode noTakeover (if noTakeover then [] else ctx ++ out) r).map ((f.tid, f.idx, out) :: ·)
      else none

/-! ### bytes -/

def payloadBytes (cfg : Cfg) : Payload → Bytes
  | .plain b => b
  | .deflated ctx out => cfg.zenc ctx out

def isCompressed : Payload → Bool
  | .plain _ => false
  | .deflated _ _ => true

/-- the bytes handed to `sendall` for a frame -/
def frameBytes (cfg : Cfg) (c : Chunk) : Bytes :=
  (Frame.build c.desc.op (payloadBytes cfg c.desc.pay) (cfg.key c.tid c.idx)
    (rsv1 := if isCompressed c.desc.pay then 1 else 0)).getD []

/-- the simulated socket writes `data[:n/2]`, then `data[n/2:]` -/
def chunkBytes (cfg : Cfg) (c : Chunk) : Bytes :=
  let b := frameBytes cfg c
  if c.second then b.drop (b.length / 2) else b.take (b.length / 2)

def wireBytes (cfg : Cfg) (w : List Chunk) : Bytes := (w.map (chunkBytes cfg)).flatten

/-! ### enumeration of schedules (used by the correspondence harness only) -/

def enabled (v : Variant) (cfg : Cfg) (s : State) (t : Tid) : Bool :=
  match (s.th t).current v cfg with
  | none => false
  | some c => !blockedOn s.sh c

/-- steps that neither write shared state nor read anything another thread writes (the loop
    thread's tests of its own `closed` / `_sock`): they commute with every step of every other
    thread, so the enumeration does not branch on where they fall -/
def silentNext (v : Variant) (cfg : Cfg) (s : State) (t : Tid) : Bool :=
  match (s.th t).current v cfg with
  | some c =>
    match c.rest with
    | .rdSock :: _ => true
    | .rdClosed :: _ => true
    | .brIfErr _ :: _ => true
    | _ => false
  | none => false

/-- thread `t` takes one step, then its silent steps up to the next visible one -/
def burst (v : Variant) (cfg : Cfg) : Nat → State → Tid → State × List Tid
  | 0, s, t => (step v cfg s t, [t])
  | k + 1, s, t =>
    let s1 := step v cfg s t
    if silentNext v cfg s1 t then
      let p := burst v cfg k s1 t
      (p.1, t :: p.2)
    else (s1, [t])

/-- all maximal schedules of enabled steps of threads `0..n-1` with at most `budget`
    preemptions (switching away from a thread that could have continued); a thread's silent
    steps are glued to its preceding visible step -/
def enumerate (v : Variant) (cfg : Cfg) (n : Nat) : Nat → State → Option Tid → Nat → List (List Tid)
  | 0, _, _, _ => [[]]
  | fuel + 1, s, last, budget =>
    let en := (List.range n).filter (enabled v cfg s)
    if en = [] then [[]]
    else
      en.flatMap fun t =>
        let cost : Nat :=
          match last with
          | none => 0
          | some l => if l = t then 0 else if enabled v cfg s l then 1 else 0
        if cost > budget then []
        else
          let p := burst v cfg 8 s t
          (enumerate v cfg n fuel p.1 (some t) (budget - cost)).map (p.2 ++ ·)

end Lomond.Threads
