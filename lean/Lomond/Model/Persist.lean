/-
  Model of `lomond/persist.py : persist()` (C16).

  The world `persist` lives in is made of three external things, all parameters here:
    * the websocket:   every call of `websocket.connect(...)` gives one connection attempt,
                       i.e. a finite list of events (the attempt *ended*), each of which either
                       has `name == 'ready'` or not (`isReady`);
    * `random()`:      one draw per back-off;
    * `exit_event`:    the value `exit_event.wait(delay)` returns at each back-off.
  One `Round` bundles what the world supplies for one pass through the `while True:` body.
  A finite list of rounds is a finite *prefix* of the world's behaviour: when it is used up
  and no `wait` has returned true, persist is not finished, it is `running` (about to call
  `connect` again).  Delays are exact rationals (`Rat`).

      retries = 0
      random_wait = max_wait - min_wait
      while True:
          retries += 1
          for event in websocket.connect(poll=poll, ping_rate=ping_rate, ping_timeout=ping_timeout):
              if event.name == 'ready':
                  retries = 0
              yield event
          wait_for = min_wait + random() * min(random_wait, 2**retries)
          yield events.BackOff(wait_for)
          if exit_event.wait(wait_for):
              break
-/

namespace Lomond.Persist

/-- what `persist` yields: an event of the connection passed through, or a `BackOff(delay)` -/
inductive Out (ε : Type) where
  | ev (e : ε)
  | backOff (delay : Rat)
  deriving DecidableEq, Repr

/-- everything observable of a run: calls made on the three external objects, and the yields.
    `π` is the type of the opaque values `poll`, `ping_rate`, `ping_timeout`. -/
inductive Obs (ε π : Type) where
  | connect (poll pingRate pingTimeout : π)   -- websocket.connect(poll=…, ping_rate=…, ping_timeout=…)
  | yield (o : Out ε)
  | random                                    -- random() called
  | wait (t : Rat)                            -- exit_event.wait(t) called
  deriving DecidableEq, Repr

structure Cfg (π : Type) where
  minWait : Rat
  maxWait : Rat
  poll : π
  pingRate : π
  pingTimeout : π

/-- what the world supplies during one pass through the loop body -/
structure Round (ε : Type) where
  events : List ε      -- the events of this connection attempt, in order
  draw : Rat           -- what `random()` returns
  exit : Bool          -- what `exit_event.wait(wait_for)` returns

inductive Status where
  | exited             -- `break`: the generator is finished
  | running            -- the given rounds are used up; the next thing persist does is `connect`
  deriving DecidableEq, Repr

/-- body of the `for` loop as far as `retries` is concerned -/
def afterEvent {ε : Type} (isReady : ε → Bool) (retries : Nat) (e : ε) : Nat :=
  if isReady e then 0 else retries

/-- value of `retries` when the `for` loop is over -/
def forLoop {ε : Type} (isReady : ε → Bool) (retries : Nat) (evs : List ε) : Nat :=
  evs.foldl (afterEvent isReady) retries

/-- `min_wait + random() * min(random_wait, 2**retries)` -/
def waitFor {π : Type} (c : Cfg π) (retries : Nat) (u : Rat) : Rat :=
  c.minWait + u * min (c.maxWait - c.minWait) ((2 : Rat) ^ retries)

/-- observations of one pass through the loop body, given the delay -/
def roundObs {ε π : Type} (c : Cfg π) (r : Round ε) (d : Rat) : List (Obs ε π) :=
  Obs.connect c.poll c.pingRate c.pingTimeout ::
    (r.events.map (fun e => Obs.yield (Out.ev e)) ++ [Obs.random, Obs.yield (Out.backOff d), Obs.wait d])

/-- the `while True:` loop, started with the given value of `retries` -/
def run {ε π : Type} (isReady : ε → Bool) (c : Cfg π) : Nat → List (Round ε) → List (Obs ε π) × Status
  | _, [] => ([], .running)
  | retries, r :: rs =>
    let retries1 := retries + 1
    let retries2 := forLoop isReady retries1 r.events
    let d := waitFor c retries2 r.draw
    if r.exit then (roundObs c r d, .exited)
    else
      let rest := run isReady c retries2 rs
      (roundObs c r d ++ rest.1, rest.2)

/-- `persist(websocket, poll, min_wait, max_wait, ping_rate, ping_timeout, exit_event)` -/
def persist {ε π : Type} (isReady : ε → Bool) (c : Cfg π) (rs : List (Round ε)) : List (Obs ε π) × Status :=
  run isReady c 0 rs

/-- what the consumer of the generator sees -/
def yielded {ε π : Type} : List (Obs ε π) → List (Out ε)
  | [] => []
  | .yield o :: t => o :: yielded t
  | _ :: t => yielded t

/-- the delays of the BackOff events among the yields -/
def backOffs {ε : Type} : List (Out ε) → List Rat
  | [] => []
  | .backOff d :: t => d :: backOffs t
  | .ev _ :: t => backOffs t

/-- the connection events among the yields -/
def passed {ε : Type} : List (Out ε) → List ε
  | [] => []
  | .ev e :: t => e :: passed t
  | .backOff _ :: t => passed t

end Lomond.Persist
