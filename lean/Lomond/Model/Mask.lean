/-
  Mechanics of lomond/mask.py, mirrored literally (no proofs here):

      _XOR_TABLE = [bytes(a ^ b for a in range(256)) for b in range(256)]

      def mask_payload(masking_key, data):
          a, b, c, d = (_XOR_TABLE[n] for n in bytearray(masking_key))
          data[::4] = data[::4].translate(a)
          data[1::4] = data[1::4].translate(b)
          data[2::4] = data[2::4].translate(c)
          data[3::4] = data[3::4].translate(d)

  The *shape* of that program -- the table comprehension (variables, bounds, element expression), the
  names unpacked, the lane statements `(start, step, start', step', name)` in source order -- is not
  written here: it is read from `Generated/Mask.lean`, which harness/maskfacts.py extracts from the
  AST of the source on every check.  This file is the interpreter of those facts:

  * `buildTable`   the nested comprehension (outer variable = row index, inner variable = column)
  * `unpackRows`   `n1, .., nm = (<table>[n] for n in bytearray(key))`: the generator is consumed
                   lazily, one item more than there are names; too few / too many items is ValueError
                   (a 3-byte and a 5-byte key both raise ValueError before `data` is touched)
  * `sliceGet`     `data[start::step]`              (CPython: indices start, start+step, .. below len)
  * `translate`    `bytes.translate(table)`: table must have 256 entries; each byte x becomes table[x]
  * `sliceSet`     `data[start::step] = repl`: for step ≠ 1 the sizes must agree (else ValueError) and
                   exactly the positions start, start+step, .. are overwritten -- except that an empty
                   `repl` deletes those positions (a CPython bytearray quirk); step = 1 splices
  * `runLanes`     the statements in the listed order, on the same (mutated) bytearray

  Trusted beyond this file: that CPython's `bytearray.translate` and extended-slice read/assignment
  behave as `translate` / `sliceGet` / `sliceSet` say (compared with the real function by the driver op
  `frame maskmech`, harness/props/c03.py).

  An exception leaves the bytearray as it is at that moment: errors carry that content.
-/
import Lomond.Model.Basic
import Lomond.Generated.Mask

namespace Lomond.Mask

inductive Err
  | valueError | indexError | nameError
  deriving Repr, DecidableEq, Inhabited

/-- a lane statement `data[ts::tst] = data[ss::sst].translate(name)` as `(ts, tst, ss, sst, name)` -/
abbrev Stmt := Nat × Nat × Nat × Nat × String

/-- result of running on a bytearray: the new content, or the exception with the content at that moment -/
abbrev R := Except (Err × Bytes) Bytes

/-- binary operator of the element expression -/
def evalOp (op : String) (x y : Nat) : Nat :=
  if op = "^" then x ^^^ y
  else if op = "&" then x &&& y
  else if op = "|" then x ||| y
  else if op = "+" then x + y
  else if op = "-" then x - y
  else if op = "*" then x * y
  else 0

/-- operand of the element expression inside both comprehensions: the inner variable shadows the
    outer one; anything else is a literal -/
def evalOperand (outerVar innerVar name : String) (o i : Nat) : Nat :=
  if name = innerVar then i else if name = outerVar then o else name.toNat?.getD 0

/-- `[bytes(<lhs> <op> <rhs> for <inner> in range(innerN)) for <outer> in range(outerN)]` -/
def buildTable (outerVar innerVar : String) (outerN innerN : Nat) (elt : String × String × String) :
    List Bytes :=
  (List.range outerN).map fun o =>
    (List.range innerN).map fun i =>
      evalOp elt.2.1 (evalOperand outerVar innerVar elt.1 o i) (evalOperand outerVar innerVar elt.2.2 o i)

/-- `_XOR_TABLE`, as the source's comprehension says -/
def xorTable : List Bytes :=
  buildTable Gen.maskTableOuterVar Gen.maskTableInnerVar Gen.maskTableOuterN Gen.maskTableInnerN
    Gen.maskTableElt

/-- the items `table[n]` for the key bytes, in order; an index outside the table is IndexError -/
def rowsOf (table : List Bytes) : Bytes → Except Err (List Bytes)
  | [] => .ok []
  | n :: r =>
    match table[n]? with
    | none => .error .indexError
    | some row =>
      match rowsOf table r with
      | .error e => .error e
      | .ok rest => .ok (row :: rest)

/-- `n1, .., nm = (table[n] for n in key)`: unpacking asks the generator for `m` items and then for
    one more; it is ValueError unless there are exactly `m` -/
def unpackRows (table : List Bytes) (m : Nat) (key : Bytes) : Except Err (List Bytes) :=
  match rowsOf table (key.take (m + 1)) with
  | .error e => .error e
  | .ok rows => if rows.length = m then .ok rows else .error .valueError

/-- `len(range(start, n, step))` for `step ≥ 1` -/
def sliceLen (start step n : Nat) : Nat := (n - start + step - 1) / step

/-- `data[start::step]` -/
def sliceGet (start step : Nat) (data : Bytes) : Bytes :=
  (List.range (sliceLen start step data.length)).map fun j => data.getD (start + j * step) 0

/-- `src.translate(row)` -/
def translate (row src : Bytes) : Except Err Bytes :=
  if row.length = 256 then .ok (src.map fun x => row.getD x 0) else .error .valueError

/-- `data[start::step] = repl` (`step ≥ 1`) -/
def sliceSet (start step : Nat) (data repl : Bytes) : Except Err Bytes :=
  if step = 1 then .ok (data.take start ++ repl)
  else if repl = [] then
    -- CPython (bytearray_ass_subscript, `needed == 0`): an EMPTY right-hand side deletes the slice's positions
    .ok (((List.range data.length).filter fun i => !decide (start ≤ i ∧ (i - start) % step = 0)).map
      fun i => data.getD i 0)
  else if repl.length = sliceLen start step data.length then
    .ok ((List.range data.length).map fun i =>
      if start ≤ i ∧ (i - start) % step = 0 then repl.getD ((i - start) / step) 0 else data.getD i 0)
  else .error .valueError

/-- one statement `data[ts::tst] = data[ss::sst].translate(name)` (right-hand side first) -/
def laneStmt (env : List (String × Bytes)) (st : Stmt) (data : Bytes) : R :=
  if st.2.2.2.1 = 0 then .error (.valueError, data)          -- slice step cannot be zero
  else
    match env.lookup st.2.2.2.2 with
    | none => .error (.nameError, data)
    | some row =>
      match translate row (sliceGet st.2.2.1 st.2.2.2.1 data) with
      | .error e => .error (e, data)
      | .ok repl =>
        if st.2.1 = 0 then .error (.valueError, data)
        else
          match sliceSet st.1 st.2.1 data repl with
          | .error e => .error (e, data)
          | .ok d => .ok d

/-- the statements in order on the same bytearray -/
def runLanes (env : List (String × Bytes)) : List Stmt → Bytes → R
  | [], d => .ok d
  | s :: r, d =>
    match laneStmt env s d with
    | .error e => .error e
    | .ok d' => runLanes env r d'

/-- `mask_payload` with the lane statements as a parameter (for the order theorem) -/
def maskPayloadWith (stmts : List Stmt) (key data : Bytes) : R :=
  match unpackRows xorTable Gen.maskUnpackNames.length key with
  | .error e => .error (e, data)
  | .ok rows => runLanes (Gen.maskUnpackNames.zip rows) stmts data

/-- `mask_payload(key, data)`: the content of `data` afterwards -/
def maskPayloadMech (key data : Bytes) : R := maskPayloadWith Gen.maskLaneStmts key data

end Lomond.Mask
