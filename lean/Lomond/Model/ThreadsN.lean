/-
  Thread interleaving model, general socket (properties C11, C12): the states, step programs and
  scheduler of `Model/Threads.lean`, with a socket whose `sendall`

    * needs ANY number n ≥ 1 of `send()` calls ("chunks") for a frame — `Env.more t i` = n - 1 is the
      number of chunks before the last one, for the frame of call `i` of thread `t` (the write lock is
      held across the whole `sendall`; every chunk is a separate schedule entry, so other threads run
      between any two chunks),
    * fails on a socket that has been shut (`sockShut`, as in `Model/Threads.lean`: every `send()` raises), and
    * may be told to FAIL: `Env.failAt t i = some k` makes the `sendall` of call `i` of thread `t` raise once `k`
      chunks of the frame are on the wire (`k = 0`: nothing written; `k ≤ more`: a torn frame).  The
      exception is `TransportFail` (`Err.transport`); it leaves `with self._lock:` through the release
      (`toRelease`) — in `write(data, closing=True)` it skips the `closing = True` under the lock —, is
      swallowed by `_send_close` / by the loop's `_send_pong` and `_check_auto_ping`, and reaches the
      caller of a send method.

  The step programs are unchanged (`write1 f; write2 f`): `write1` is the loop over the chunks before
  the last one (it stays at the head of the program until they are written; with `more = 0` it writes
  nothing — a 1-chunk `sendall`), `write2` writes the last chunk.  How many chunks of the frame in
  progress are out is read off the wire (`sentOf`).

  `Model/Threads.lean` is the instance `more = 1`, no injected failure (`execN_default`, `runN_default`), which
  is what the driver runs by default; with `n=` / `fail=` keys the driver runs this file.
-/
import Lomond.Model.Threads

namespace Lomond.Threads
open Lomond

/-- the socket -/
structure Env where
  /-- chunks of the frame of call `idx` of thread `tid` before the last one (the `sendall` takes `more + 1` `send()`s) -/
  more : Tid → Nat → Nat := fun _ _ => 1
  /-- `some k`: the `sendall` raises once `k` chunks of the frame have been written -/
  failAt : Tid → Nat → Option Nat := fun _ _ => none
  /-- byte sizes of the chunks before the last one, given the length of the frame -/
  sizes : Tid → Nat → Nat → List Nat := fun _ _ len => [len / 2]

/-- chunks of the frame of call `i` of thread `t` on the wire -/
def sentOf (w : List Chunk) (t : Tid) (i : Nat) : Nat :=
  (w.filter (fun x => x.tid = t && x.idx = i)).length

/-- the chunks before the last one -/
def execW1 (env : Env) (t : Tid) (f : FrameSrc) (r : List Step) (sh : Shared) (c : Cur) : Shared × Cur :=
  if sh.sockShut then failWrite r sh c
  else if env.failAt t c.idx = some (sentOf sh.wire t c.idx) then failWrite r sh c
  else if env.more t c.idx = 0 then (sh, { c with rest := r })
  else ({ sh with wire := sh.wire ++ [⟨t, c.idx, false, descOf f c⟩] },
        { c with rest := if sentOf sh.wire t c.idx + 1 < env.more t c.idx then .write1 f :: r else r })

/-- the last chunk -/
def execW2 (env : Env) (t : Tid) (f : FrameSrc) (r : List Step) (sh : Shared) (c : Cur) : Shared × Cur :=
  if sh.sockShut then failWrite r sh c
  else if env.failAt t c.idx = some (sentOf sh.wire t c.idx) then failWrite r sh c
  else ({ sh with wire := sh.wire ++ [⟨t, c.idx, true, descOf f c⟩] }, { c with rest := r, wrote := true })

def execN (env : Env) (v : Variant) (t : Tid) (st : Step) (r : List Step) (sh : Shared) (c : Cur) : Shared × Cur :=
  match st with
  | .write1 f => execW1 env t f r sh c
  | .write2 f => execW2 env t f r sh c
  | _ => exec v t st r sh c

/-- one schedule entry -/
def stepN (env : Env) (v : Variant) (cfg : Cfg) (s : State) (t : Tid) : State :=
  match (s.th t).current v cfg with
  | none => s
  | some c =>
    match c.rest with
    | [] => s
    | st :: r =>
      if blockedOn s.sh c then s
      else
        let p := execN env v t st r s.sh c
        setTh s t (settle (s.th t) p.2) p.1

def runN (env : Env) (v : Variant) (cfg : Cfg) (s : State) (sched : List Tid) : State :=
  sched.foldl (stepN env v cfg) s

/-! ### what the wire looks like -/

/-- the chunks of one `sendall`, as far as it got -/
structure Group where
  tid : Tid
  idx : Nat
  desc : FrameDesc
  /-- chunks before the last one that were written -/
  parts : Nat
  /-- the last chunk was written -/
  fin : Bool
  deriving Repr, DecidableEq, Inhabited

def Group.chunks (g : Group) : List Chunk :=
  List.replicate g.parts ⟨g.tid, g.idx, false, g.desc⟩ ++ (if g.fin then [⟨g.tid, g.idx, true, g.desc⟩] else [])

def flat (gs : List Group) : List Chunk := (gs.map Group.chunks).flatten

/-- a whole frame: every chunk of the `sendall` -/
def Group.whole (env : Env) (g : Group) : Prop := g.fin = true ∧ g.parts = env.more g.tid g.idx

/-- a torn frame: the `sendall` of exactly this call was made to fail after exactly these chunks -/
def Group.torn (env : Env) (g : Group) : Prop :=
  g.fin = false ∧ env.failAt g.tid g.idx = some g.parts ∧ g.parts ≤ env.more g.tid g.idx

/-- the complete Close frames on the wire -/
def hasWholeClose (w : List Chunk) : Bool := (frames w).any isClose

/-- after the last chunk of a Close frame nothing follows, and before its first chunk there is no
    other complete Close frame -/
def nothingAfterWholeClose : List Chunk → Bool
  | [] => true
  | c :: r => (if c.second && isClose c then r.isEmpty else true) && nothingAfterWholeClose r

/-! ### the groups of a concrete wire (used by the driver and in examples) -/

/-- maximal runs of chunks of one call, a run ending with the call's last chunk -/
def groupsAux : Option Group → List Chunk → List Group
  | none, [] => []
  | some g, [] => [g]
  | none, x :: r =>
    if x.second then ⟨x.tid, x.idx, x.desc, 0, true⟩ :: groupsAux none r
    else groupsAux (some ⟨x.tid, x.idx, x.desc, 1, false⟩) r
  | some g, x :: r =>
    if x.tid = g.tid ∧ x.idx = g.idx then
      (if x.second then { g with fin := true } :: groupsAux none r
       else groupsAux (some { g with parts := g.parts + 1 }) r)
    else if x.second then g :: ⟨x.tid, x.idx, x.desc, 0, true⟩ :: groupsAux none r
    else g :: groupsAux (some ⟨x.tid, x.idx, x.desc, 1, false⟩) r

def groupsOf (w : List Chunk) : List Group := groupsAux none w

def Group.wholeB (env : Env) (g : Group) : Bool := g.fin && g.parts == env.more g.tid g.idx
def Group.tornB (env : Env) (g : Group) : Bool :=
  !g.fin && env.failAt g.tid g.idx == some g.parts && decide (g.parts ≤ env.more g.tid g.idx)

/-- whole frames and torn frames of failing calls, plus at most an unfinished last group -/
def wholeN (env : Env) (w : List Chunk) : Bool :=
  let gs := groupsOf w
  gs.dropLast.all (fun g => g.wholeB env || g.tornB env) &&
    (match gs.getLast? with
     | none => true
     | some g => g.wholeB env || g.tornB env || (!g.fin && decide (g.parts ≤ env.more g.tid g.idx)))

/-! ### bytes -/

/-- cut `b` after `s₁`, `s₂`, … bytes: `sizes.length + 1` pieces that concatenate to `b` -/
def cutAt : List Nat → Bytes → List Bytes
  | [], b => [b]
  | s :: r, b => b.take s :: cutAt r (b.drop s)

/-- the chunks of a frame, as bytes -/
def pieces (env : Env) (cfg : Cfg) (c : Chunk) : List Bytes :=
  cutAt (env.sizes c.tid c.idx (frameBytes cfg c).length) (frameBytes cfg c)

/-- the bytes of a group: the pieces that were written -/
def Group.bytes (env : Env) (cfg : Cfg) (g : Group) : Bytes :=
  ((pieces env cfg ⟨g.tid, g.idx, true, g.desc⟩).take (g.parts + (if g.fin then 1 else 0))).flatten

/-- the bytes of a wire: the `j`-th chunk of a frame carries the frame's `j`-th piece -/
def bytesFrom (env : Env) (cfg : Cfg) : List Chunk → List Chunk → Bytes
  | _, [] => []
  | pre, x :: r => (pieces env cfg x).getD (sentOf pre x.tid x.idx) [] ++ bytesFrom env cfg (pre ++ [x]) r

def wireBytesN (env : Env) (cfg : Cfg) (w : List Chunk) : Bytes := bytesFrom env cfg [] w

/-- the specification decoder of C03, iterated: the frames a conforming server reads from a byte string -/
def decodeFrames : Nat → Bytes → Option (List Spec.Decoded)
  | _, [] => some []
  | 0, _ :: _ => none
  | fuel + 1, b :: bs =>
    match Spec.decodeClientFrame (b :: bs) with
    | none => none
    | some (d, rest) => (decodeFrames fuel rest).map (d :: ·)

def decodeWire (bs : Bytes) : Option (List Spec.Decoded) := decodeFrames bs.length bs

/-- what the server must read for a frame on the model's wire -/
def decodedOf (cfg : Cfg) (c : Chunk) : Spec.Decoded :=
  { fin := 1, rsv1 := if isCompressed c.desc.pay then 1 else 0, rsv2 := 0, rsv3 := 0, opcode := c.desc.op,
    key := cfg.key c.tid c.idx, payload := payloadBytes cfg c.desc.pay }

/-! ### enumeration of schedules of the general model (used by the correspondence harness only) -/

def burstN (env : Env) (v : Variant) (cfg : Cfg) : Nat → State → Tid → State × List Tid
  | 0, s, t => (stepN env v cfg s t, [t])
  | k + 1, s, t =>
    let s1 := stepN env v cfg s t
    if silentNext v cfg s1 t then
      let p := burstN env v cfg k s1 t
      (p.1, t :: p.2)
    else (s1, [t])

def enumerateN (env : Env) (v : Variant) (cfg : Cfg) (n : Nat) : Nat → State → Option Tid → Nat → List (List Tid)
  | 0, _, _, _ => [[]]
  | fuel + 1, s, last, budget =>
    let en := (List.range n).filter (enabled v cfg s)
    if en = [] then [[]]
    else
      en.flatMap fun t =>
        let cost : Nat :=
          match last with
          | none => 0
          | some l => if l = t then 0 else if enabled v cfg s l then 1 else 0
        if cost > budget then []
        else
          let p := burstN env v cfg 8 s t
          (enumerateN env v cfg n fuel p.1 (some t) (budget - cost)).map (p.2 ++ ·)

end Lomond.Threads
