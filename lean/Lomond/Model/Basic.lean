/-
  Basic byte-string helpers shared by every model file.
  Bytes are `List Nat`; well-formed bytes are `< 256` (`Bytes.WF`).
  No imports: every Model file must stay import-free so the driver stays light.
-/
namespace Lomond

abbrev Bytes := List Nat

def Bytes.WF (bs : Bytes) : Prop := ∀ b ∈ bs, b < 256

instance (bs : Bytes) : Decidable (Bytes.WF bs) := by
  unfold Bytes.WF; exact inferInstance

def hexDigit (n : Nat) : Char :=
  if n < 10 then Char.ofNat (48 + n) else Char.ofNat (87 + n)

def hexOfBytes (bs : Bytes) : String :=
  String.ofList (bs.foldr (fun b acc => hexDigit (b / 16) :: hexDigit (b % 16) :: acc) [])

def hexVal (c : Char) : Option Nat :=
  let n := c.toNat
  if 48 ≤ n ∧ n ≤ 57 then some (n - 48)
  else if 97 ≤ n ∧ n ≤ 102 then some (n - 87)
  else if 65 ≤ n ∧ n ≤ 70 then some (n - 55)
  else none

def bytesOfHexChars : List Char → Option Bytes
  | [] => some []
  | [_] => none
  | a :: b :: rest =>
    match hexVal a, hexVal b, bytesOfHexChars rest with
    | some x, some y, some r => some ((x * 16 + y) :: r)
    | _, _, _ => none

def bytesOfHex (s : String) : Option Bytes := bytesOfHexChars s.toList

def strBytes (s : String) : Bytes := s.toUTF8.toList.map (·.toNat)

/-- Big-endian value of a byte string. -/
def beVal (bs : Bytes) : Nat := bs.foldl (fun acc b => acc * 256 + b) 0

/-- Big-endian encoding on exactly `n` bytes (high bytes dropped if too large). -/
def beBytes : Nat → Nat → Bytes
  | 0, _ => []
  | n + 1, v => beBytes n (v / 256) ++ [v % 256]

end Lomond
