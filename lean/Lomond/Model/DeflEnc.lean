/-
  A small reference ENCODER for DEFLATE (RFC 1951) as permessage-deflate (RFC 7692) uses it:
  LZ77 token lists (`Deflate.Token`: literals and (distance, length) matches) grouped in blocks
  (`Deflate.Blk`: BFINAL bit + tokens) are turned into bits and packed into bytes.

    * block types: stored (BTYPE=00; only for blocks of at most 65535 literals), fixed-Huffman
      (BTYPE=01) and dynamic-Huffman (BTYPE=10; canonical codes for code lengths given by the
      caller, sent without repeat codes — `Kind.dyn` — or as a caller-given sequence of
      code-length symbols with the repeat codes 16/17/18 in a caller-given code-length code —
      `Kind.dynRle`) with the length / distance base + extra-bit tables of
      §3.2.5; which type is used for a block is the caller's choice (`kind`);
    * a block with BFINAL=1 ends a deflate stream: what follows starts at the next byte boundary
      (RFC 7692 §7.2.3.4: such a block is followed by the `00` byte);
    * a message ends as a sync flush does — with the empty stored block `00 00 ff ff`, whose four
      LEN/NLEN bytes are then stripped (RFC 7692 §7.2.1): `encMsg` is what goes into the frames,
      `encMsg kind m ++ [0,0,0xff,0xff]` is what the receiver hands to its inflater.

  Executable and independent of Model/Inflate.lean (its own tables, written as arithmetic on the
  ranges of §3.2.5): Proofs/Inflate*.lean prove that `Inflate.inflateAll[Safe]` reads every
  history made by this encoder as the token model says, and the C06 check validates the encoder
  against real zlib.
-/
import Lomond.Model.Deflate

namespace Lomond.DeflEnc
open Lomond Lomond.Deflate

/-- `n` bits of `v`, least significant first (how DEFLATE packs every number) -/
def bitsLE : Nat → Nat → List Bool
  | 0, _ => []
  | n + 1, v => decide (v % 2 = 1) :: bitsLE n (v / 2)

/-- `n` bits of `v`, most significant first (how DEFLATE packs Huffman codes) -/
def bitsMSB (n v : Nat) : List Bool := (bitsLE n v).reverse

/-- value of a bit list read least significant first -/
def valLE : List Bool → Nat
  | [] => 0
  | b :: r => b.toNat + 2 * valLE r

def packN : Nat → List Bool → Bytes
  | 0, _ => []
  | n + 1, bs => valLE (bs.take 8) :: packN n (bs.drop 8)

/-- bits to bytes, first bit = least significant bit of the first byte; the last byte is padded
    with zero bits -/
def pack (bs : List Bool) : Bytes := packN ((bs.length + 7) / 8) bs

/-- bytes to bits -/
def bitsOf (bs : Bytes) : List Bool := bs.flatMap (bitsLE 8)

/-- the fixed literal/length code of RFC 1951 §3.2.6:
    0..143 ↦ 8 bits 00110000.., 144..255 ↦ 9 bits 110010000.., 256..279 ↦ 7 bits 0000000..,
    280..287 ↦ 8 bits 11000000.. -/
def litCode (s : Nat) : List Bool :=
  if s < 144 then bitsMSB 8 (48 + s)
  else if s < 256 then bitsMSB 9 (400 + (s - 144))
  else if s < 280 then bitsMSB 7 (s - 256)
  else bitsMSB 8 (192 + (s - 280))

/-- RFC 1951 §3.2.2, step 2: the smallest code of each length, for the code lengths `lens`
    (`lens[s]` = length of symbol `s`, 0 = unused; `bl_count[0]` counts as 0) -/
def firstCode (lens : List Nat) : Nat → Nat
  | 0 => 0
  | 1 => 0
  | j + 2 => (firstCode lens (j + 1) + lens.count (j + 1)) * 2

/-- RFC 1951 §3.2.2, step 3: the canonical code word of symbol `s` — the smallest code of its
    length plus its rank among the symbols of that length; most significant bit first -/
def canonCode (lens : List Nat) (s : Nat) : List Bool :=
  bitsMSB (lens.getD s 0) (firstCode lens (lens.getD s 0) + (lens.take s).count (lens.getD s 0))

/-- a match length 3..258 as (length code − 257, number of extra bits, extra bits) — §3.2.5 -/
def lenCode (n : Nat) : Nat × Nat × Nat :=
  if n < 11 then (n - 3, 0, 0)
  else if n < 19 then (8 + (n - 11) / 2, 1, (n - 11) % 2)
  else if n < 35 then (12 + (n - 19) / 4, 2, (n - 19) % 4)
  else if n < 67 then (16 + (n - 35) / 8, 3, (n - 35) % 8)
  else if n < 131 then (20 + (n - 67) / 16, 4, (n - 67) % 16)
  else if n < 258 then (24 + (n - 131) / 32, 5, (n - 131) % 32)
  else (28, 0, 0)

/-- a match distance 1..32768 as (distance code, number of extra bits, extra bits) — §3.2.5 -/
def distCode (d : Nat) : Nat × Nat × Nat :=
  if d < 5 then (d - 1, 0, 0)
  else if d < 9 then (4 + (d - 5) / 2, 1, (d - 5) % 2)
  else if d < 17 then (6 + (d - 9) / 4, 2, (d - 9) % 4)
  else if d < 33 then (8 + (d - 17) / 8, 3, (d - 17) % 8)
  else if d < 65 then (10 + (d - 33) / 16, 4, (d - 33) % 16)
  else if d < 129 then (12 + (d - 65) / 32, 5, (d - 65) % 32)
  else if d < 257 then (14 + (d - 129) / 64, 6, (d - 129) % 64)
  else if d < 513 then (16 + (d - 257) / 128, 7, (d - 257) % 128)
  else if d < 1025 then (18 + (d - 513) / 256, 8, (d - 513) % 256)
  else if d < 2049 then (20 + (d - 1025) / 512, 9, (d - 1025) % 512)
  else if d < 4097 then (22 + (d - 2049) / 1024, 10, (d - 2049) % 1024)
  else if d < 8193 then (24 + (d - 4097) / 2048, 11, (d - 4097) % 2048)
  else if d < 16385 then (26 + (d - 8193) / 4096, 12, (d - 8193) % 4096)
  else (28 + (d - 16385) / 8192, 13, (d - 16385) % 8192)

/-- one token: a literal; or length symbol, its extra bits, distance symbol, its extra bits.
    `lc` / `dc` = the code words of the literal/length and of the distance symbols -/
def tokBitsG (lc dc : Nat → List Bool) : Token → List Bool
  | .lit b => lc b
  | .copy d n =>
    lc (257 + (lenCode n).1) ++ bitsLE (lenCode n).2.1 (lenCode n).2.2 ++
      dc (distCode d).1 ++ bitsLE (distCode d).2.1 (distCode d).2.2

/-- one token in the fixed code (5-bit distance codes) -/
def tokBits : Token → List Bool := tokBitsG litCode (bitsMSB 5)

/-- what this encoder can write: byte literals, lengths 3..258, distances 1..32768 -/
def Token.ok : Token → Bool
  | .lit b => b < 256
  | .copy d n => 1 ≤ d && d ≤ 32768 && 3 ≤ n && n ≤ 258

def Blk.ok (b : Blk) : Bool := b.toks.all Token.ok

/-- zero bits up to the next byte boundary from bit offset `off` -/
def pad (off : Nat) : List Bool := List.replicate ((8 - off % 8) % 8) false

def isLit : Token → Bool
  | .lit _ => true
  | .copy _ _ => false

def litVal : Token → Nat
  | .lit b => b
  | .copy _ _ => 0

/-- a stored block holds at most 65535 bytes and no matches -/
def canStore (b : Blk) : Bool := b.toks.all isLit && b.toks.length ≤ 65535

/-- stored block at bit offset `off`: header, padding to the byte boundary, LEN, ~LEN, the bytes -/
def storedBits (off : Nat) (final : Bool) (data : Bytes) : List Bool :=
  [final, false, false] ++ pad (off + 3) ++ bitsLE 16 data.length ++ bitsLE 16 (65535 - data.length) ++ bitsOf data

/-- fixed-Huffman block: header, the tokens, the end-of-block code -/
def fixedBits (final : Bool) (toks : List Token) : List Bool :=
  [final, true, false] ++ toks.flatMap tokBits ++ litCode 256

/-! ### dynamic-Huffman blocks (BTYPE=10) with code lengths chosen by the caller -/

/-- Kraft sum of a code-length assignment, scaled by `2^15`: Σ over the used symbols of
    `2^(15 − length)`; the code is complete iff this is `2^15` -/
def kraft (lens : List Nat) : Nat := (List.range 15).foldl (fun a l => a + lens.count (l + 1) * 2 ^ (14 - l)) 0

/-- the symbols a token needs have a code -/
def usesOk (ll dl : List Nat) : Token → Bool
  | .lit b => 1 ≤ ll.getD b 0
  | .copy d n => 1 ≤ ll.getD (257 + (lenCode n).1) 0 && 1 ≤ dl.getD (distCode d).1 0

/-- `ll` (literal/length, 257..286 entries) and `dl` (distance, 1..30 entries) are code lengths
    0..15 of two complete codes that contain the end-of-block symbol and every symbol of `toks` -/
def dynOk (ll dl : List Nat) (toks : List Token) : Bool :=
  257 ≤ ll.length && ll.length ≤ 286 && 1 ≤ dl.length && dl.length ≤ 30 &&
  (ll ++ dl).all (· ≤ 15) && kraft ll == 2 ^ 15 && kraft dl == 2 ^ 15 && 1 ≤ ll.getD 256 0 &&
  toks.all (usesOk ll dl)

/-- the order in which the lengths of the code-length code are sent (§3.2.7) -/
def clOrder : List Nat := [16, 17, 18, 0, 8, 7, 9, 6, 10, 5, 11, 4, 12, 3, 13, 2, 14, 1, 15]

/-- the code-length code used by this encoder: the lengths 0..15 get 4 bits each (a complete
    code), the repeat codes 16..18 are not used -/
def clLen (sym : Nat) : Nat := if sym < 16 then 4 else 0

/-- header of a dynamic block after the 3 block-header bits: HLIT, HDIST, HCLEN = 19 − 4, the 19
    lengths of the code-length code, then the `ll.length + dl.length` code lengths, 4 bits each -/
def dynHeader (ll dl : List Nat) : List Bool :=
  bitsLE 5 (ll.length - 257) ++ bitsLE 5 (dl.length - 1) ++ bitsLE 4 15 ++
    clOrder.flatMap (fun s => bitsLE 3 (clLen s)) ++ (ll ++ dl).flatMap (bitsMSB 4)

/-- dynamic-Huffman block: header, code lengths, the tokens and the end-of-block symbol in the
    canonical codes of `ll` / `dl` -/
def dynBits (final : Bool) (ll dl : List Nat) (toks : List Token) : List Bool :=
  [final, false, true] ++ dynHeader ll dl ++ toks.flatMap (tokBitsG (canonCode ll) (canonCode dl)) ++ canonCode ll 256

/-! ### dynamic-Huffman headers that use the repeat codes 16, 17, 18 (§3.2.7)

  The `HLIT + 257 + HDIST + 1` code lengths are sent as ONE sequence of symbols of the code-length
  alphabet: 0..15 = that length; 16 = copy the previous length 3..6 times (2 extra bits);
  17 = 3..10 zeros (3 extra bits); 18 = 11..138 zeros (7 extra bits).  A run may cross from the
  literal/length lengths into the distance lengths.  The code-length code itself (19 lengths 0..7,
  complete) and HCLEN are the caller's choice. -/

/-- one symbol of the code-length alphabet with its argument -/
inductive Item
  /-- one code length 0..15 -/
  | lit (n : Nat)
  /-- symbol 16: the previous length `k` = 3..6 more times -/
  | rep16 (k : Nat)
  /-- symbol 17: `k` = 3..10 zeros -/
  | rep17 (k : Nat)
  /-- symbol 18: `k` = 11..138 zeros -/
  | rep18 (k : Nat)
  deriving Repr, DecidableEq, Inhabited

/-- the argument is in the range the symbol can express -/
def Item.ok : Item → Bool
  | .lit n => n ≤ 15
  | .rep16 k => 3 ≤ k && k ≤ 6
  | .rep17 k => 3 ≤ k && k ≤ 10
  | .rep18 k => 11 ≤ k && k ≤ 138

/-- the symbol 0..18 -/
def Item.sym : Item → Nat
  | .lit n => n
  | .rep16 _ => 16
  | .rep17 _ => 17
  | .rep18 _ => 18

/-- the code lengths a list of items stands for, after the lengths `acc`; `none` when symbol 16
    comes first (there is no previous length) -/
def expandGo : List Nat → List Item → Option (List Nat)
  | acc, [] => some acc
  | acc, .lit n :: r => expandGo (acc ++ [n]) r
  | acc, .rep16 k :: r =>
    match acc.getLast? with
    | none => none
    | some v => expandGo (acc ++ List.replicate k v) r
  | acc, .rep17 k :: r => expandGo (acc ++ List.replicate k 0) r
  | acc, .rep18 k :: r => expandGo (acc ++ List.replicate k 0) r

/-- **the code lengths a list of items stands for** -/
def expand (items : List Item) : Option (List Nat) := expandGo [] items

/-- an item in the code-length code `cc`: the code word, then the extra bits -/
def itemBits (cc : Nat → List Bool) : Item → List Bool
  | .lit n => cc n
  | .rep16 k => cc 16 ++ bitsLE 2 (k - 3)
  | .rep17 k => cc 17 ++ bitsLE 3 (k - 3)
  | .rep18 k => cc 18 ++ bitsLE 7 (k - 11)

/-- how many of the first entries equal `v` -/
def runLen (v : Nat) : List Nat → Nat
  | [] => 0
  | x :: r => if x = v then runLen v r + 1 else 0

/-- `n` zeros, greedily: 138 at a time with symbol 18 while at least 11 are left, then symbol 17
    for 3..10, else single zeros (the first argument is fuel, `≥ n`) -/
def zeroRun : Nat → Nat → List Item
  | 0, _ => []
  | fuel + 1, n =>
    if n = 0 then []
    else if n < 3 then .lit 0 :: zeroRun fuel (n - 1)
    else if n ≤ 10 then [.rep17 n]
    else if n ≤ 138 then [.rep18 n]
    else .rep18 138 :: zeroRun fuel (n - 138)

/-- `n` more copies of the previous length `v`, greedily: 6 at a time with symbol 16 while at
    least 3 are left, else single lengths (the first argument is fuel, `≥ n`) -/
def sameRun : Nat → Nat → Nat → List Item
  | 0, _, _ => []
  | fuel + 1, v, n =>
    if n = 0 then []
    else if n < 3 then .lit v :: sameRun fuel v (n - 1)
    else if n ≤ 6 then [.rep16 n]
    else .rep16 6 :: sameRun fuel v (n - 6)

def rleGo : Nat → List Nat → List Item
  | 0, _ => []
  | _ + 1, [] => []
  | fuel + 1, v :: r =>
    let n := runLen v r
    (if v = 0 then zeroRun (n + 1) (n + 1) else .lit v :: sameRun n v n) ++ rleGo fuel (r.drop n)

/-- **a simple run-length compressor** for code lengths: `expand (rle l) = some l`
    (Proofs/InflateRle.lean) -/
def rle (l : List Nat) : List Item := rleGo l.length l

/-- a complete code-length code in which every symbol 0..18 has a code word: 4 bits for 0..12,
    5 bits for 13..18 -/
def clDefault : List Nat := [4, 4, 4, 4, 4, 4, 4, 4, 4, 4, 4, 4, 4, 5, 5, 5, 5, 5, 5]

/-- `cll` = 19 lengths 0..7 of a complete code-length code; `nc` = 4..19 of them are sent
    (HCLEN + 4), those not sent (in the order of `clOrder`) are 0 -/
def clOk (cll : List Nat) (nc : Nat) : Bool :=
  cll.length == 19 && cll.all (· ≤ 7) && kraft cll == 2 ^ 15 && 4 ≤ nc && nc ≤ 19 &&
  (clOrder.drop nc).all (fun s => cll.getD s 0 == 0)

/-- a dynamic block whose `nl + nd` code lengths are sent as `items` in the code-length code
    `cll` can be written: the code-length code is fine, every item is in range and its symbol has
    a code word, and the items expand to `nl` literal/length lengths followed by distance lengths
    that are `dynOk` for the tokens -/
def rleOk (cll : List Nat) (nc nl : Nat) (items : List Item) (toks : List Token) : Bool :=
  clOk cll nc && items.all (fun it => it.ok && 1 ≤ cll.getD it.sym 0) &&
  match expand items with
  | none => false
  | some lens => dynOk (lens.take nl) (lens.drop nl) toks

/-- header of a dynamic block after the 3 block-header bits: HLIT, HDIST, HCLEN = `nc` − 4, the
    first `nc` lengths of the code-length code `cll` in the order of `clOrder`, then the items in
    the canonical code of `cll` -/
def dynHeaderR (cll : List Nat) (nc nl nd : Nat) (items : List Item) : List Bool :=
  bitsLE 5 (nl - 257) ++ bitsLE 5 (nd - 1) ++ bitsLE 4 (nc - 4) ++
    (clOrder.take nc).flatMap (fun s => bitsLE 3 (cll.getD s 0)) ++ items.flatMap (itemBits (canonCode cll))

/-- dynamic-Huffman block with a run-length coded header: the code lengths are `lens`
    (= what `items` expand to), the first `nl` of them for the literal/length code -/
def dynBitsR (final : Bool) (cll : List Nat) (nc nl : Nat) (items : List Item) (lens : List Nat)
    (toks : List Token) : List Bool :=
  [final, false, true] ++ dynHeaderR cll nc nl (lens.length - nl) items ++
    toks.flatMap (tokBitsG (canonCode (lens.take nl)) (canonCode (lens.drop nl))) ++ canonCode (lens.take nl) 256

/-- how a block is to be written -/
inductive Kind
  /-- stored, if the block has at most 65535 literals and no match (else fixed) -/
  | stored
  | fixed
  /-- dynamic with these literal/length and distance code lengths, if `dynOk` (else fixed) -/
  | dyn (litLens distLens : List Nat)
  /-- dynamic with a header that uses the repeat codes: code-length code `cll` of which `nc`
      lengths are sent, `nl` literal/length lengths, all code lengths given as `items`;
      if `rleOk` (else fixed) -/
  | dynRle (cll : List Nat) (nc nl : Nat) (items : List Item)
  deriving Repr, DecidableEq, Inhabited

/-- the run-length coded form of `.dyn ll dl`: items from `rle`, the code-length code `clDefault` -/
def Kind.rleOf (ll dl : List Nat) : Kind := .dynRle clDefault 19 ll.length (rle (ll ++ dl))

/-- the bits of a block without the padding that follows a BFINAL=1 block -/
def bodyBits (off : Nat) (k : Kind) (b : Blk) : List Bool :=
  match k with
  | .stored => if canStore b then storedBits off b.final (b.toks.map litVal) else fixedBits b.final b.toks
  | .fixed => fixedBits b.final b.toks
  | .dyn ll dl => if dynOk ll dl b.toks then dynBits b.final ll dl b.toks else fixedBits b.final b.toks
  | .dynRle cll nc nl items =>
    if rleOk cll nc nl items b.toks then dynBitsR b.final cll nc nl items ((expand items).getD []) b.toks
    else fixedBits b.final b.toks

/-- one block at bit offset `off`.  After a BFINAL=1 block the stream ends: zero bits up to the
    byte boundary. -/
def blkBits (off : Nat) (sb : Kind × Blk) : List Bool :=
  if sb.2.final then bodyBits off sb.1 sb.2 ++ pad (off + (bodyBits off sb.1 sb.2).length) else bodyBits off sb.1 sb.2

/-- blocks one after the other, from bit offset `off` -/
def blocksBits : Nat → List (Kind × Blk) → List Bool
  | _, [] => []
  | off, b :: bs => blkBits off b ++ blocksBits (off + (blkBits off b).length) bs

/-- the start of the sync-flush block: stored header + padding (its `00 00 ff ff` is stripped) -/
def tailHead (off : Nat) : List Bool := [false, false, false] ++ pad (off + 3)

/-- the bits of one message given as (kind, block) pairs: the blocks, then the sync-flush block
    without its last four bytes; a whole number of bytes -/
def msgBitsK (kbs : List (Kind × Blk)) : List Bool :=
  let x := blocksBits 0 kbs
  x ++ tailHead x.length

/-- the payload of a compressed message, block types given block by block (the driver's form) -/
def encMsgK (kbs : List (Kind × Blk)) : Bytes := pack (msgBitsK kbs)

/-- the bits of one message whose block types are chosen by `kind` -/
def msgBits (kind : Blk → Kind) (m : List Blk) : List Bool := msgBitsK (m.map fun b => (kind b, b))

/-- **the encoder**: the payload of a compressed message made of the blocks `m` -/
def encMsg (kind : Blk → Kind) (m : List Blk) : Bytes := pack (msgBits kind m)

end Lomond.DeflEnc
