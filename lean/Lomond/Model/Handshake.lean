/-
  C10: the pieces of the opening handshake that sit around `Http.buildRequest` /
  `Http.onResponse`:

  * `b64encode` (the key is `b64encode(os.urandom(16))`),
  * `acceptFor`: the accept value `on_response` expects, `b64encode(sha1(key + WS_KEY).digest())`,
    computed (SHA-1 is `Model/Sha1.lean`) from the key in the object's state — the key that the
    request of the same attempt carries,
  * how `WebSocket.__init__` derives `resource` and `_host_port` from the components
    `urlparse` returns (`urlparse` itself is CPython and stays outside the model),
  * the key life-cycle: `WebSocket.State.__init__` draws a key; `__init__` and every
    `connect()` (`reset()`) build a fresh `State`,
  * `Spec.parseRequest`: an independent HTTP/1.1 request reader used as the yardstick for
    "well-formed request" (it shares no code with `buildRequest`),
  * `Spec.WireField` / `Spec.renderReply`: the "conforming reply generator" — every way a server
    may write a given set of header fields (any order, any letter case of the names, optional
    blanks around the value, an obs-fold before the value).

  No proofs here.
-/
import Lomond.Model.Basic
import Lomond.Model.Http
import Lomond.Model.Sha1
import Lomond.Generated.Tables

namespace Lomond.Handshake
open Lomond Lomond.Http

/-! ### base64 (RFC 4648, standard alphabet, with padding) -/

def b64Alphabet : List Nat :=
  [65, 66, 67, 68, 69, 70, 71, 72, 73, 74, 75, 76, 77, 78, 79, 80, 81, 82, 83, 84, 85, 86, 87, 88, 89, 90,
   97, 98, 99, 100, 101, 102, 103, 104, 105, 106, 107, 108, 109, 110, 111, 112, 113, 114, 115, 116, 117,
   118, 119, 120, 121, 122, 48, 49, 50, 51, 52, 53, 54, 55, 56, 57, 43, 47]

def b64Char (n : Nat) : Nat := b64Alphabet.getD n 61

/-- `base64.b64encode` -/
def b64encode : Bytes → Bytes
  | [] => []
  | [a] => [b64Char (a / 4), b64Char (a % 4 * 16), 61, 61]
  | [a, b] => [b64Char (a / 4), b64Char (a % 4 * 16 + b / 16), b64Char (b % 16 * 4), 61]
  | a :: b :: c :: r =>
    b64Char (a / 4) :: b64Char (a % 4 * 16 + b / 16) :: b64Char (b % 16 * 4 + c / 64) :: b64Char (c % 64)
      :: b64encode r

/-- value of a base64 character (`none` for anything outside the alphabet, incl. `=`) -/
def b64Val (c : Nat) : Option Nat :=
  if 65 ≤ c ∧ c ≤ 90 then some (c - 65)
  else if 97 ≤ c ∧ c ≤ 122 then some (c - 71)
  else if 48 ≤ c ∧ c ≤ 57 then some (c + 4)
  else if c = 43 then some 62
  else if c = 47 then some 63
  else none

/-- a strict decoder (used only to state that `b64encode` loses nothing) -/
def b64decode : Bytes → Option Bytes
  | [] => some []
  | [w, x, 61, 61] =>
    match b64Val w, b64Val x with
    | some p, some q => some [p * 4 + q / 16]
    | _, _ => none
  | [w, x, y, 61] =>
    match b64Val w, b64Val x, b64Val y with
    | some p, some q, some r => some [p * 4 + q / 16, q % 16 * 16 + r / 4]
    | _, _, _ => none
  | w :: x :: y :: z :: rest =>
    match b64Val w, b64Val x, b64Val y, b64Val z, b64decode rest with
    | some p, some q, some r, some s, some t =>
      some ((p * 4 + q / 16) :: (q % 16 * 16 + r / 4) :: (r % 4 * 64 + s) :: t)
    | _, _, _, _, _ => none
  | _ => none

/-! ### the accept value (RFC 6455 §4.2.2 item 5.4) -/

/-- `b64encode(sha1(key + constants.WS_KEY).digest())`: the `Sec-WebSocket-Accept` value that answers the
    request key `key` (the base64 text as sent).  `Gen.wsKey` is regenerated from `lomond/constants.py`.
    The result is ASCII, so `.decode('ascii')` leaves the code points as they are. -/
def acceptFor (key : Bytes) : Bytes := b64encode (Sha1.sha1 (key ++ Gen.wsKey))

/-! ### `WebSocket.__init__`: URL components ↦ request parameters -/

/-- what `urlparse(url)` hands to `WebSocket.__init__` (ASCII byte strings) -/
structure Url where
  /-- `_url.scheme == 'wss'` -/
  secure : Bool
  /-- `_url.hostname` -/
  host : Bytes
  /-- `_url.port` (`none` when the URL has no port) -/
  port : Option Nat
  /-- `_url.path` -/
  path : Bytes
  /-- `_url.query` -/
  query : Bytes
  deriving Repr, DecidableEq

/-- `int(_url.port) if _url.port else (443 if self.scheme == 'wss' else 80)`
    (a port of 0 is falsy and therefore replaced by the default, too) -/
def Url.effPort (u : Url) : Nat :=
  match u.port with
  | some p => if p ≠ 0 then p else (if u.secure then 443 else 80)
  | none => if u.secure then 443 else 80

/-- `"{}:{}".format(self.host, self.port)` -/
def Url.hostPort (u : Url) : Bytes := u.host ++ [58] ++ natBytes u.effPort

/-- `_url.path or '/'`, then `"{}?{}"` when the query is non-empty -/
def Url.resource (u : Url) : Bytes :=
  let p := if u.path = [] then [47] else u.path
  if u.query ≠ [] then p ++ [63] ++ u.query else p

/-- everything `build_request` reads besides the key -/
structure Client where
  url : Url
  agent : Bytes
  protocols : List Bytes
  customHeaders : List (Bytes × Bytes)
  compress : Bool
  deriving Repr

def Client.reqCfg (c : Client) (key : Bytes) : ReqCfg :=
  { resource := c.url.resource, hostPort := c.url.hostPort, key := key, agent := c.agent,
    protocols := c.protocols, customHeaders := c.customHeaders, compress := c.compress }

/-! ### the key life-cycle -/

/-- the part of a `WebSocket` object that concerns the key: how many 16-byte draws
    `os.urandom(16)` has served so far, and `state.key` -/
structure KeyState where
  draws : Nat
  key : Bytes
  deriving Repr, DecidableEq

/-- `WebSocket.State.__init__`: `self.key = b64encode(os.urandom(16))`; `rnd k` is the k-th draw -/
def freshState (rnd : Nat → Bytes) (draws : Nat) : KeyState :=
  { draws := draws + 1, key := b64encode (rnd draws) }

/-- `WebSocket.__init__` ends with `self.state = self.State()` -/
def newWebSocket (rnd : Nat → Bytes) : KeyState := freshState rnd 0

/-- `connect()` begins with `self.reset()`, i.e. `self.state = self.State()` -/
def connect (rnd : Nat → Bytes) (w : KeyState) : KeyState := freshState rnd w.draws

/-- the object after `n` calls of `connect()` -/
def afterConnects (rnd : Nat → Bytes) : Nat → KeyState
  | 0 => newWebSocket rnd
  | n + 1 => connect rnd (afterConnects rnd n)

/-- the request bytes the `n`-th `connect()` (1-based) writes -/
def nthRequest (c : Client) (rnd : Nat → Bytes) (n : Nat) : Bytes :=
  buildRequest (c.reqCfg (afterConnects rnd n).key)

/-- `challenge = b64encode(sha1(self.key + constants.WS_KEY).digest()).decode('ascii')` as
    `on_response` computes it from the object's state: `self.key` is `self.state.key` -/
def KeyState.challenge (w : KeyState) : Str := acceptFor w.key

/-- the value the accept header is compared with during the `n`-th connection attempt -/
def nthChallenge (rnd : Nat → Bytes) (n : Nat) : Str := (afterConnects rnd n).challenge

/-- `WebSocket.on_response` of the object in state `w`: nothing but the reply and the state enters -/
def KeyState.onResponse (strictAccept : Bool) (w : KeyState) (r : Response) : Except Str Accepted :=
  Http.onResponse strictAccept w.challenge r

/-- `on_response` during the `n`-th connection attempt -/
def nthOnResponse (strictAccept : Bool) (rnd : Nat → Bytes) (n : Nat) (r : Response) : Except Str Accepted :=
  (afterConnects rnd n).onResponse strictAccept r

end Lomond.Handshake

/-! ### specification side: an independent request reader and the reply generator -/

namespace Lomond.Spec
open Lomond

structure Request where
  method : Bytes
  target : Bytes
  version : Bytes
  /-- in wire order, names as sent, values with optional blanks trimmed -/
  headers : List (Bytes × Bytes)
  deriving Repr, DecidableEq

/-- split at every `CR LF` -/
def splitLines : Bytes → List Bytes
  | [] => [[]]
  | 13 :: 10 :: r => [] :: splitLines r
  | c :: r =>
    match splitLines r with
    | [] => [[c]]
    | h :: t => (c :: h) :: t

/-- the lines before the first empty line, and the lines after it -/
def splitAtBlank : List Bytes → Option (List Bytes × List Bytes)
  | [] => none
  | l :: r =>
    if l = [] then some ([], r)
    else match splitAtBlank r with
      | some (hs, rest) => some (l :: hs, rest)
      | none => none

/-- split at every single space -/
def splitSP : Bytes → List Bytes
  | [] => [[]]
  | c :: r =>
    match splitSP r with
    | [] => [[]]
    | h :: t => if c = 32 then [] :: h :: t else (c :: h) :: t

def isOWS (c : Nat) : Bool := c == 32 || c == 9

def trimOWS (bs : Bytes) : Bytes := ((bs.dropWhile isOWS).reverse.dropWhile isOWS).reverse

/-- `field-name ":" OWS field-value OWS` -/
def splitField : Bytes → Option (Bytes × Bytes)
  | [] => none
  | c :: r =>
    if c = 58 then some ([], trimOWS r)
    else match splitField r with
      | some (n, v) => some (c :: n, v)
      | none => none

def allFields : List Bytes → Option (List (Bytes × Bytes))
  | [] => some []
  | l :: r =>
    match splitField l, allFields r with
    | some f, some fs => some (f :: fs)
    | _, _ => none

/-- RFC 7230 §3: `request-line CRLF *(header-field CRLF) CRLF`, nothing after it.
    `request-line = method SP request-target SP HTTP-version`. -/
def parseRequest (bs : Bytes) : Option Request :=
  match splitLines bs with
  | reqLine :: rest =>
    -- the input must end right after the blank line: exactly one (empty) line follows it
    match splitAtBlank rest with
    | some (hdrLines, [[]]) =>
      match splitSP reqLine, allFields hdrLines with
      | [m, t, v], some hs =>
        if m ≠ [] ∧ t ≠ [] ∧ v ≠ [] ∧ hs.all (fun f => f.1 ≠ [] ∧ f.1.all (fun c => !isOWS c)) ∧
           -- no bare CR or LF anywhere
           (reqLine :: hdrLines).all (fun l => l.all (fun c => c != 13 && c != 10)) then
          some { method := m, target := t, version := v, headers := hs }
        else none
      | _, _ => none
    | _ => none
  | [] => none

/-! #### the conforming reply generator -/

/-- one header field as a server may write it -/
structure WireField where
  /-- canonical (lower-case) field name -/
  name : Bytes
  /-- which letters of the name are sent in upper case (missing entries = as is) -/
  upper : List Bool
  /-- blanks between the colon and the value -/
  pre : Bytes
  /-- `some ws`: an obs-fold (`CR LF` + the blanks `ws`) between the colon and the value -/
  fold : Option Bytes
  value : Bytes
  /-- blanks after the value -/
  post : Bytes
  deriving Repr, DecidableEq

def upcase (mask : List Bool) (s : Bytes) : Bytes :=
  match s, mask with
  | [], _ => []
  | c :: r, [] => c :: r
  | c :: r, m :: ms => (if m ∧ 97 ≤ c ∧ c ≤ 122 then c - 32 else c) :: upcase ms r

/-- the one or two lines of the field (without their `CR LF`) -/
def WireField.lines (f : WireField) : List Bytes :=
  match f.fold with
  | none => [upcase f.upper f.name ++ [58] ++ f.pre ++ f.value ++ f.post]
  | some ws => [upcase f.upper f.name ++ [58] ++ f.pre, ws ++ f.value ++ f.post]

def isBlank (c : Nat) : Bool := c == 32 || c == 9

/-- printable ASCII without blanks (what names and the ends of values consist of) -/
def isVChar (c : Nat) : Bool := 33 ≤ c && c ≤ 126

/-- RFC 7230 `tchar` in lower case: what a canonical field name consists of -/
def isNameChar (c : Nat) : Bool :=
  isVChar c && c != 58 && !(65 ≤ c && c ≤ 90)

/-- well-formedness of one written field -/
def WireField.ok (f : WireField) : Bool :=
  f.name ≠ [] && f.name.all isNameChar &&
  f.pre.all isBlank && f.post.all isBlank &&
  (match f.fold with | none => true | some ws => ws ≠ [] && ws.all isBlank && f.value ≠ []) &&
  f.value.all (fun c => c < 128 && c != 13 && c != 10) &&
  (match f.value with | [] => true | c :: _ => isVChar c) &&
  (match f.value.reverse with | [] => true | c :: _ => isVChar c)

/-- the value of the field called `n` among the written fields (first match) -/
def fieldValue (fs : List WireField) (n : Bytes) : Option Bytes :=
  (fs.find? (fun f => f.name = n)).map (·.value)

/-- `status-line CRLF *(field CRLF) CRLF` -/
def renderReply (statusLine : Bytes) (fs : List WireField) : Bytes :=
  statusLine ++ [13, 10] ++ ((fs.flatMap WireField.lines).flatMap (· ++ [13, 10])) ++ [13, 10]

/-- `HTTP-version SP status-code SP reason-phrase` with the code given by its digits -/
def statusLine (version : Bytes) (code : Bytes) (reason : Bytes) : Bytes :=
  version ++ [32] ++ code ++ [32] ++ reason

end Lomond.Spec
