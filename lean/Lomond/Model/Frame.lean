/-
  Model of lomond/frame.py (`Frame.build`, `build_close_payload`, `validate`),
  lomond/mask.py (`mask_payload`) and an independent RFC 6455 §5.2 decoder for
  client frames (`Spec.decodeClientFrame`) used as the specification of C03.
-/
import Lomond.Model.Basic
import Lomond.Generated.Tables

namespace Lomond

/-- `mask_payload(key, data)`: byte `i` is XORed with `key[i % 4]` (the code does this as four
    `translate` calls over the slices `data[j::4]`; the per-index effect is what is modelled, the
    slice/translate mechanics are checked exhaustively by the correspondence run). -/
def maskFrom (key : Bytes) (i : Nat) : Bytes → Bytes
  | [] => []
  | b :: r => (b ^^^ key.getD (i % 4) 0) :: maskFrom key (i + 1) r

def maskPayload (key : Bytes) (data : Bytes) : Bytes := maskFrom key 0 data

structure Frame where
  opcode : Nat
  payload : Bytes := []
  fin : Nat := 1
  rsv1 : Nat := 0
  rsv2 : Nat := 0
  rsv3 : Nat := 0
  mask : Bool := false
  maskingKey : Option Bytes := none
  deriving Repr, DecidableEq, Inhabited

def Frame.isControl (f : Frame) : Bool := f.opcode ≥ 8
def Frame.isText (f : Frame) : Bool := f.opcode = Gen.opText
def Frame.isBinary (f : Frame) : Bool := f.opcode = Gen.opBinary
def Frame.isContinuation (f : Frame) : Bool := f.opcode = Gen.opContinuation
def Frame.isClose (f : Frame) : Bool := f.opcode = Gen.opClose
def Frame.isPing (f : Frame) : Bool := f.opcode = Gen.opPing
def Frame.isPong (f : Frame) : Bool := f.opcode = Gen.opPong

/-- first header byte -/
def byte0 (fin rsv1 rsv2 rsv3 opcode : Nat) : Nat :=
  fin * 128 + rsv1 * 64 + rsv2 * 32 + rsv3 * 16 + opcode

/-- header of `Frame.build` (without key): `none` = FrameBuildError (length ≥ 2^63) -/
def buildHeader (b0 : Nat) (maskBit : Nat) (length : Nat) : Option Bytes :=
  if length < 126 then some [b0, maskBit + length]
  else if length < 65536 then some ([b0, maskBit + 126] ++ beBytes 2 length)
  else if length < 2 ^ 63 then some ([b0, maskBit + 127] ++ beBytes 8 length)
  else none

/-- `Frame.build(opcode, payload, fin, rsv1, rsv2, rsv3, mask=True, masking_key=key)` -/
def Frame.build (opcode : Nat) (payload : Bytes) (key : Bytes)
    (fin : Nat := 1) (rsv1 : Nat := 0) (rsv2 : Nat := 0) (rsv3 : Nat := 0) : Option Bytes :=
  (buildHeader (byte0 fin rsv1 rsv2 rsv3 opcode) 128 payload.length).map
    (fun h => h ++ key ++ maskPayload key payload)

/-- unmasked (server-style) frame, used by tests of the receive side -/
def Frame.buildUnmasked (opcode : Nat) (payload : Bytes)
    (fin : Nat := 1) (rsv1 : Nat := 0) (rsv2 : Nat := 0) (rsv3 : Nat := 0) : Option Bytes :=
  (buildHeader (byte0 fin rsv1 rsv2 rsv3 opcode) 0 payload.length).map (fun h => h ++ payload)

/-- `Frame.build_close_payload(status, reason_bytes)`; `status = none` ⇒ `b''`.
    `status` must fit 16 bits (else struct.error), checked by the caller. -/
def buildClosePayload (status : Option Nat) (reason : Bytes) : Bytes :=
  match status with
  | none => []
  | some c => beBytes 2 c ++ reason

namespace Spec

/-- what a conforming *server* reads from a client frame (RFC 6455 §5.2), independent of
    `Frame.build`: MASK must be 1 and the length must use the minimal encoding. -/
structure Decoded where
  fin : Nat
  rsv1 : Nat
  rsv2 : Nat
  rsv3 : Nat
  opcode : Nat
  key : Bytes
  payload : Bytes
  deriving Repr, DecidableEq

def unmask (key payload : Bytes) : Bytes := maskFrom key 0 payload

/-- decode one client frame from the front of `bs`; returns the frame and the rest -/
def decodeClientFrame (bs : Bytes) : Option (Decoded × Bytes) :=
  match bs with
  | b0 :: b1 :: r =>
    if b1 < 128 then none            -- client frames MUST be masked
    else
      let len7 := b1 - 128
      let ext : Option (Nat × Bytes) :=
        if len7 < 126 then some (len7, r)
        else if len7 = 126 then
          if r.length < 2 then none
          else let v := beVal (r.take 2); if v < 126 then none else some (v, r.drop 2)
        else
          if r.length < 8 then none
          else let v := beVal (r.take 8)
               if v < 65536 ∨ v ≥ 2 ^ 63 then none else some (v, r.drop 8)
      match ext with
      | none => none
      | some (len, r1) =>
        if r1.length < 4 + len then none
        else
          let key := r1.take 4
          let body := (r1.drop 4).take len
          some ({ fin := b0 / 128, rsv1 := b0 / 64 % 2, rsv2 := b0 / 32 % 2, rsv3 := b0 / 16 % 2,
                  opcode := b0 % 16, key := key, payload := unmask key body },
                (r1.drop 4).drop len)
  | _ => none

end Spec

end Lomond
