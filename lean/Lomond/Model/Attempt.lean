/-
  C10: one connection attempt as a configuration of the core model.

  `Core.Cfg` has two fields that concern the opening handshake: `request` (the bytes `run()` writes
  first) and `challenge` (what `on_response` compares the accept header with).  In the code both come
  from the same `state.key`.  Here they are *computed* from the same draw:

  * `Client.attemptCfg cl rnd n base`: the configuration of the `n`-th `connect()` of client `cl`
    (everything else — timers, write outcomes, … — taken from `base`);
  * `cfgOfRequest base req`: the same from the request bytes alone — the key is read back out of the
    request (`keyOfRequest`, an RFC 7230 reader that shares no code with `buildRequest`) and the
    challenge is `acceptFor` of it.  This is how the driver builds the configuration of a `core` line,
    so the challenge is not an input of the model.

  No proofs here (`Proofs/Sha1.lean`: the two constructions agree).
-/
import Lomond.Model.Handshake
import Lomond.Model.Core

namespace Lomond.Handshake
open Lomond Lomond.Http

/-- the header name as `build_request` writes it -/
def keyHeaderName : Bytes := lit "Sec-WebSocket-Key"

/-- the value of the last `Sec-WebSocket-Key` field of a request (`[]` when the bytes are not a request or
    carry no such field).  `build_request` writes the application's custom headers *before* its own, so
    the last one is the one lomond wrote. -/
def keyOfRequest (req : Bytes) : Bytes :=
  match Spec.parseRequest req with
  | some q => ((q.headers.reverse.find? (fun h => h.1 = keyHeaderName)).map (·.2)).getD []
  | none => []

/-- the accept value that answers the request `req` -/
def challengeOfRequest (req : Bytes) : Str := acceptFor (keyOfRequest req)

/-- core configuration from the request bytes: the challenge is computed from the key in the request -/
def cfgOfRequest (base : Core.Cfg) (req : Bytes) : Core.Cfg :=
  { base with request := req, challenge := challengeOfRequest req }

/-- core configuration of the `n`-th connection attempt of client `c`: request and challenge both come from
    the key in the object's state after `n` connects -/
def Client.attemptCfg (c : Client) (rnd : Nat → Bytes) (n : Nat) (base : Core.Cfg) : Core.Cfg :=
  { base with request := nthRequest c rnd n, challenge := nthChallenge rnd n }

end Lomond.Handshake
