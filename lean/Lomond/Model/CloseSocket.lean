/-
  `WebsocketSession._close_socket` as a function of what the socket's `shutdown()` and `close()` do (properties C13, C09;
  finding D12).  The source has one of two shapes:

    pinned                                   repaired (`462337e`)
      if self._sock is None: return            if self._sock is None: return
      try:                                     try:
          with self._lock:                         with self._lock:
              self._sock.shutdown(RDWR)                try:
              self._sock.close()                           self._sock.shutdown(RDWR)
      except socket.error: pass                        finally:
      except Exception as e: log                           self._sock.close()
      finally: self._sock = None               except socket.error: pass
                                               except Exception as e: log
                                               finally: self._sock = None

  Which one the code under test has is extracted from the AST on every run (`Gen.closeAfterFailedShutdown`); the harness runs the
  real method against stub sockets for every combination of outcomes and compares with `run` (driver op `closesock`).
-/
namespace Lomond.CloseSock

/-- what a call on the socket does: returns, raises `socket.error` (e.g. ENOTCONN from `shutdown()` after the connection was
    reset, EBADF), raises something else -/
inductive Outcome
  | ok | osError | other
  deriving Repr, DecidableEq, Inhabited

structure In where
  /-- `self._sock is not None` -/
  present : Bool
  shut : Outcome
  close : Outcome
  deriving Repr, DecidableEq, Inhabited

structure Out where
  /-- the calls made on the socket object, in order -/
  calls : List String
  /-- `self._sock is None` afterwards -/
  sockNone : Bool
  /-- an exception left `_close_socket` -/
  escaped : Bool
  /-- the write lock is free afterwards -/
  lockFree : Bool
  deriving Repr, DecidableEq, Inhabited

/-- the inner block; returns the calls made and whether an exception is in flight when the `with` block is left -/
def inner (repaired : Bool) (i : In) : List String × Bool :=
  match i.shut with
  | .ok => (["shutdown", "close"], i.close != .ok)
  | _ => if repaired then (["shutdown", "close"], true) else (["shutdown"], true)

def run (repaired : Bool) (i : In) : Out :=
  if !i.present then { calls := [], sockNone := true, escaped := false, lockFree := true }
  else
    -- both `except` clauses together catch every `Exception`; `with` releases the lock on every path; `finally` clears `_sock`
    { calls := (inner repaired i).1, sockNone := true, escaped := false, lockFree := true }

def Outcome.ofString (s : String) : Outcome :=
  if s = "ok" then .ok else if s = "os" then .osError else .other

/-- driver: `closesock <repaired 0|1> <present 0|1> <shutdown ok|os|other> <close ok|os|other>` -/
def runDriver : List String → String
  | [r, p, s, c] =>
    let o := run (r = "1") { present := p = "1", shut := .ofString s, close := .ofString c }
    s!"calls={",".intercalate o.calls} none={if o.sockNone then 1 else 0} esc={if o.escaped then 1 else 0} lock={if o.lockFree then 1 else 0}"
  | _ => "bad-op"

end Lomond.CloseSock
