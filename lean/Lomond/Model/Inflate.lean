/-
  Executable bit-level raw inflate (RFC 1951) as zlib's `decompressobj(-wbits)` behaves when it
  is fed a byte history piece by piece:

    `inflateAll wbits input`  =  everything the object has returned once `input` has been fed.

  * stored, fixed-Huffman and dynamic-Huffman blocks; LSB-first bit reader; canonical codes;
  * running out of input *anywhere* (mid-header, mid-symbol, between a length and its distance,
    inside a stored block) is not an error: what has been produced so far is the result
    (zlib: `Z_BUF_ERROR` is swallowed, the object waits for more input);
  * a block with BFINAL=1 ends the stream: input after it is ignored (`Z_STREAM_END`; the
    object returns `b''` for ever after);
  * `none` (zlib.error) for: block type 3; stored LEN ≠ ~NLEN; more than 286 literal/length or
    30 distance codes; an over-subscribed or incomplete code-length code; a bad repeat in the
    code lengths; no end-of-block code; over-subscribed / incomplete literal-length or distance
    code (zlib's rule: an incomplete code is tolerated only when its longest code has 1 bit,
    and an empty distance code is tolerated until a distance is needed); an invalid symbol;
    a distance that reaches before the start of the output or beyond the `2^wbits` window.
    Every error is raised at the point of the input where zlib raises it (same number of bits
    needed), so truncated streams agree as well.

  The window rule is the RFC 7692 / `INFLATE_STRICT` one (`dist ≤ 2^wbits`).  zlib itself is
  more lenient *inside one `inflate()` call* (it checks `dist ≤ bytes written in this call +
  bytes in the window`); a peer that honours the negotiated window never shows the difference,
  and whenever this function accepts a distance zlib accepts it too.

  Executable model; total (fuel / structural recursion), kernel-reducible (used by `decide` in
  Properties/C06).  Stored, fixed-Huffman and dynamic-Huffman blocks (canonical codes of any
  complete code lengths; the lengths sent one by one, or with the repeat codes 16/17/18 in any
  complete code-length code and any HCLEN) are proved correct against the reference encoder of
  Model/DeflEnc.lean in Proofs/Inflate*.lean (Properties/C06_Inflate.lean, C06_InflateRle.lean);
  incomplete codes and the error paths are covered by the differential test against zlib only.
-/
import Lomond.Model.Basic

namespace Lomond.Inflate

/-- result of a read at a bit position -/
inductive Rd (α : Type)
  | ok (a : α) (pos : Nat)
  /-- the input ends before the item is complete -/
  | eoi
  /-- zlib.error -/
  | bad
  deriving Repr, Inhabited

/-- `n ≤ 16` bits at bit position `pos`, LSB first -/
def bits (inp : Array Nat) (pos n : Nat) : Rd Nat :=
  if pos + n ≤ 8 * inp.size then
    let i := pos / 8
    let w := inp.getD i 0 + inp.getD (i + 1) 0 * 256 + inp.getD (i + 2) 0 * 65536
    .ok ((w >>> (pos % 8)) % 2 ^ n) (pos + n)
  else .eoi

/-- shape of a code as `inflate_table` classifies it -/
inductive Shape
  | complete
  /-- exactly one code, of length 1: bit 0 is that symbol, bit 1 is an invalid code -/
  | single
  /-- no code at all: any bit is an invalid code -/
  | empty
  deriving Repr, DecidableEq, Inhabited

/-- canonical Huffman code in the counting form: `count[l]` codes of length `l`,
    `symbol` = symbols ordered by (length, value) -/
structure Huff where
  count : Array Nat
  symbol : Array Nat
  shape : Shape
  deriving Repr, DecidableEq, Inhabited

def countLens (lens : List Nat) : Array Nat :=
  ((List.range 16).map (fun l => lens.count l)).toArray

/-- the over-subscription / completeness test of `inflate_table`:
    `none` = rejected; `isCodes` = the table is the code-length code (never may be incomplete) -/
def classify (count : Array Nat) (isCodes : Bool) : Option Shape :=
  let total := (List.range 15).foldl (fun a l => a + count.getD (l + 1) 0) 0
  if total = 0 then some .empty
  else
    -- zlib's `left` after the last length, scaled: `2^15 - used`
    let used := (List.range 15).foldl (fun a l => a + count.getD (l + 1) 0 * 2 ^ (14 - l)) 0
    -- over-subscribed at some length ⇔ over-subscribed at length 15 (counts are ≥ 0)
    if used > 2 ^ 15 then none
    else if used = 2 ^ 15 then some .complete
    else
      let maxIs1 := total = count.getD 1 0
      if isCodes ∨ ¬ maxIs1 then none else some .single

/-- indices `i` (counted from `i0`) of the entries equal to `l` -/
def symsOf (l : Nat) : Nat → List Nat → List Nat
  | _, [] => []
  | i, x :: r => if x = l then i :: symsOf l (i + 1) r else symsOf l (i + 1) r

def mkHuff (lens : Array Nat) (isCodes : Bool) : Option Huff :=
  let ll := lens.toList
  let count := countLens ll
  match classify count isCodes with
  | none => none
  | some sh =>
    let symbol := ((List.range 15).flatMap (fun l => symsOf (l + 1) 0 ll)).toArray
    some { count := count, symbol := symbol, shape := sh }

/-- one symbol; `ok none` = invalid code -/
def decode (h : Huff) (inp : Array Nat) (pos : Nat) : Rd (Option Nat) :=
  match h.shape with
  | .empty => if pos < 8 * inp.size then .ok none (pos + 1) else .eoi
  | .single =>
    if pos < 8 * inp.size then
      let bit := (inp.getD (pos / 8) 0 >>> (pos % 8)) % 2
      if bit = 0 then .ok (some (h.symbol.getD 0 0)) (pos + 1) else .ok none (pos + 1)
    else .eoi
  | .complete => decodeGo' h inp pos
where
  /-- puff.c's loop: `code`/`first` are kept relative so that everything stays in `Nat` -/
  decodeGo' (h : Huff) (inp : Array Nat) (pos : Nat) : Rd (Option Nat) :=
    go h inp 15 1 pos 0 0 0
  go (h : Huff) (inp : Array Nat) : Nat → Nat → Nat → Nat → Nat → Nat → Rd (Option Nat)
    | 0, _, pos, _, _, _ => .ok none pos
    | fuel + 1, len, pos, code, first, index =>
      if pos < 8 * inp.size then
        let bit := (inp.getD (pos / 8) 0 >>> (pos % 8)) % 2
        let code := code + bit
        let cnt := h.count.getD len 0
        if code < first + cnt then .ok (some (h.symbol.getD (index + (code - first)) 0)) (pos + 1)
        else go h inp fuel (len + 1) (pos + 1) (code * 2) ((first + cnt) * 2) (index + cnt)
      else .eoi

def lbase : Array Nat := #[3,4,5,6,7,8,9,10,11,13,15,17,19,23,27,31,35,43,51,59,67,83,99,115,131,163,195,227,258]
def lext : Array Nat := #[0,0,0,0,0,0,0,0,1,1,1,1,2,2,2,2,3,3,3,3,4,4,4,4,5,5,5,5,0]
def dbase : Array Nat := #[1,2,3,4,5,7,9,13,17,25,33,49,65,97,129,193,257,385,513,769,1025,1537,2049,3073,4097,6145,8193,12289,16385,24577]
def dext : Array Nat := #[0,0,0,0,1,1,2,2,3,3,4,4,5,5,6,6,7,7,8,8,9,9,10,10,11,11,12,12,13,13]

/-- the fixed literal/length code of RFC 1951 §3.2.6 (lengths 8×144, 9×112, 7×24, 8×8) and the
    fixed 5-bit distance code, written out (so that kernel evaluation does not rebuild them);
    `fixedTables_ok` in Properties/C06 checks them against `mkHuff` -/
def fixedLitLens : Array Nat :=
  (Array.replicate 144 8) ++ (Array.replicate 112 9) ++ (Array.replicate 24 7) ++ (Array.replicate 8 8)
def fixedLit : Huff :=
  { count := #[0, 0, 0, 0, 0, 0, 0, 24, 152, 112, 0, 0, 0, 0, 0, 0]
    symbol := #[256, 257, 258, 259, 260, 261, 262, 263, 264, 265, 266, 267, 268, 269, 270, 271, 272, 273, 274, 275, 276, 277, 278, 279, 0, 1, 2, 3, 4, 5, 6, 7, 8, 9, 10, 11, 12, 13, 14, 15, 16, 17, 18, 19, 20, 21, 22, 23, 24, 25, 26, 27, 28, 29, 30, 31, 32, 33, 34, 35, 36, 37, 38, 39, 40, 41, 42, 43, 44, 45, 46, 47, 48, 49, 50, 51, 52, 53, 54, 55, 56, 57, 58, 59, 60, 61, 62, 63, 64, 65, 66, 67, 68, 69, 70, 71, 72, 73, 74, 75, 76, 77, 78, 79, 80, 81, 82, 83, 84, 85, 86, 87, 88, 89, 90, 91, 92, 93, 94, 95, 96, 97, 98, 99, 100, 101, 102, 103, 104, 105, 106, 107, 108, 109, 110, 111, 112, 113, 114, 115, 116, 117, 118, 119, 120, 121, 122, 123, 124, 125, 126, 127, 128, 129, 130, 131, 132, 133, 134, 135, 136, 137, 138, 139, 140, 141, 142, 143, 280, 281, 282, 283, 284, 285, 286, 287, 144, 145, 146, 147, 148, 149, 150, 151, 152, 153, 154, 155, 156, 157, 158, 159, 160, 161, 162, 163, 164, 165, 166, 167, 168, 169, 170, 171, 172, 173, 174, 175, 176, 177, 178, 179, 180, 181, 182, 183, 184, 185, 186, 187, 188, 189, 190, 191, 192, 193, 194, 195, 196, 197, 198, 199, 200, 201, 202, 203, 204, 205, 206, 207, 208, 209, 210, 211, 212, 213, 214, 215, 216, 217, 218, 219, 220, 221, 222, 223, 224, 225, 226, 227, 228, 229, 230, 231, 232, 233, 234, 235, 236, 237, 238, 239, 240, 241, 242, 243, 244, 245, 246, 247, 248, 249, 250, 251, 252, 253, 254, 255]
    shape := .complete }
def fixedDist : Huff :=
  { count := #[0, 0, 0, 0, 0, 32, 0, 0, 0, 0, 0, 0, 0, 0, 0, 0]
    symbol := #[0, 1, 2, 3, 4, 5, 6, 7, 8, 9, 10, 11, 12, 13, 14, 15, 16, 17, 18, 19, 20, 21, 22, 23, 24, 25, 26, 27, 28, 29, 30, 31]
    shape := .complete }

/-- how a block / the stream ended -/
inductive Fin
  /-- the block ended normally at bit `pos` -/
  | done (pos : Nat) (out : Array Nat)
  | eoi (out : Array Nat)
  | bad
  deriving Repr, Inhabited

/-- append `len` bytes copied from `dist` back (overlapping allowed) -/
def copyBack (dist : Nat) : Nat → Array Nat → Array Nat
  | 0, out => out
  | n + 1, out => copyBack dist n (out.push (out.getD (out.size - dist) 0))

/-- what one symbol of a Huffman block leads to -/
inductive Sym1
  /-- go on at bit `pos` with output `out` -/
  | next (pos : Nat) (out : Array Nat)
  /-- the block (or the input, or the stream) ends -/
  | stop (r : Fin)
  deriving Repr, Inhabited

/-- one round of the literal/length–distance loop of a Huffman block: a literal, the end of the
    block, or a length with its distance.  (A function of its own — not part of the recursion of
    `symLoop` — so that both have usable equation lemmas; branches as in `inflate_fast`.) -/
def symStep (inp : Array Nat) (lit dist : Huff) (wsize : Nat) (pos : Nat) (out : Array Nat) : Sym1 :=
  match decode lit inp pos with
  | .eoi => .stop (.eoi out)
  | .bad => .stop .bad
  | .ok none _ => .stop .bad                      -- invalid literal/length code
  | .ok (some sym) p1 =>
    if sym < 256 then .next p1 (out.push sym)
    else if sym = 256 then .stop (.done p1 out)
    else if sym ≥ 286 then .stop .bad              -- invalid literal/length code (fixed code 286/287)
    else
      match bits inp p1 (lext.getD (sym - 257) 0) with
      | .eoi => .stop (.eoi out)
      | .bad => .stop .bad
      | .ok le p2 =>
        let len := lbase.getD (sym - 257) 0 + le
        match decode dist inp p2 with
        | .eoi => .stop (.eoi out)
        | .bad => .stop .bad
        | .ok none _ => .stop .bad                -- invalid distance code
        | .ok (some ds) p3 =>
          if ds ≥ 30 then .stop .bad              -- invalid distance code (fixed code 30/31)
          else
            match bits inp p3 (dext.getD ds 0) with
            | .eoi => .stop (.eoi out)
            | .bad => .stop .bad
            | .ok de p4 =>
              let d := dbase.getD ds 0 + de
              if d > out.size ∨ d > wsize then .stop .bad     -- invalid distance too far back
              else .next p4 (copyBack d len out)

/-- the literal/length–distance loop of a Huffman block -/
def symLoop (inp : Array Nat) (lit dist : Huff) (wsize : Nat) : Nat → Nat → Array Nat → Fin
  | 0, _, out => .eoi out
  | fuel + 1, pos, out =>
    match symStep inp lit dist wsize pos out with
    | .stop r => r
    | .next p out' => symLoop inp lit dist wsize fuel p out'

/-- a stored block from bit position `pos` (just after the 3 header bits) -/
def stored (inp : Array Nat) (pos : Nat) (out : Array Nat) : Fin :=
  let i := (pos + 7) / 8
  if i + 4 ≤ inp.size then
    let len := inp.getD i 0 + inp.getD (i + 1) 0 * 256
    let nlen := inp.getD (i + 2) 0 + inp.getD (i + 3) 0 * 256
    if len + nlen ≠ 65535 then .bad            -- invalid stored block lengths
    else
      let avail := inp.size - (i + 4)
      if len ≤ avail then .done ((i + 4 + len) * 8) (out ++ inp.extract (i + 4) (i + 4 + len))
      else .eoi (out ++ inp.extract (i + 4) inp.size)
  else .eoi out

def clOrder : Array Nat := #[16, 17, 18, 0, 8, 7, 9, 6, 10, 5, 11, 4, 12, 3, 13, 2, 14, 1, 15]

/-- the `ncode` 3-bit lengths of the code-length code -/
def readClLens (inp : Array Nat) : Nat → Nat → Nat → Array Nat → Rd (Array Nat)
  | 0, _, pos, acc => .ok acc pos
  | k + 1, j, pos, acc =>
    match bits inp pos 3 with
    | .eoi => .eoi
    | .bad => .bad
    | .ok v p => readClLens inp k (j + 1) p (acc.set! (clOrder.getD j 0) v)

/-- the `nlen + ndist` code lengths (state CODELENS of inflate.c) -/
def readLens (inp : Array Nat) (cl : Huff) (total : Nat) : Nat → Nat → Array Nat → Rd (Array Nat)
  | 0, pos, acc => .ok acc pos
  | fuel + 1, pos, acc =>
    if acc.size ≥ total then .ok acc pos
    else
      -- an empty code-length code decodes every symbol as length 0 using one bit (inflate.c
      -- does not look at the invalid-code marker in this state)
      let r : Rd (Option Nat) := match cl.shape with
        | .empty => if pos < 8 * inp.size then .ok (some 0) (pos + 1) else .eoi
        | _ => decode cl inp pos
      match r with
      | .eoi => .eoi
      | .bad => .bad
      | .ok none _ => .bad
      | .ok (some sym) p1 =>
        if sym < 16 then readLens inp cl total fuel p1 (acc.push sym)
        else
          let (nb, base) := if sym = 16 then (2, 3) else if sym = 17 then (3, 3) else (7, 11)
          match bits inp p1 nb with
          | .eoi => .eoi
          | .bad => .bad
          | .ok e p2 =>
            if sym = 16 ∧ acc.size = 0 then .bad                 -- invalid bit length repeat
            else
              let v := if sym = 16 then acc.getD (acc.size - 1) 0 else 0
              let cnt := base + e
              if acc.size + cnt > total then .bad                 -- invalid bit length repeat
              else readLens inp cl total fuel p2 (acc ++ Array.replicate cnt v)

/-- header of a dynamic block: the two codes -/
def dynamicTables (inp : Array Nat) (pos : Nat) : Rd (Huff × Huff) :=
  match bits inp pos 14 with
  | .eoi => .eoi
  | .bad => .bad
  | .ok v p0 =>
    let nlen := v % 32 + 257
    let ndist := v / 32 % 32 + 1
    let ncode := v / 1024 % 16 + 4
    if nlen > 286 ∨ ndist > 30 then .bad        -- too many length or distance symbols
    else
      match readClLens inp ncode 0 p0 (Array.replicate 19 0) with
      | .eoi => .eoi
      | .bad => .bad
      | .ok cll p1 =>
        match mkHuff cll true with
        | none => .bad                           -- invalid code lengths set
        | some cl =>
          match readLens inp cl (nlen + ndist) (nlen + ndist + 1) p1 #[] with
          | .eoi => .eoi
          | .bad => .bad
          | .ok lens p2 =>
            if lens.getD 256 0 = 0 then .bad     -- invalid code -- missing end-of-block
            else
              match mkHuff (lens.extract 0 nlen) false with
              | none => .bad                     -- invalid literal/lengths set
              | some lit =>
                match mkHuff (lens.extract nlen (nlen + ndist)) false with
                | none => .bad                   -- invalid distances set
                | some dist => .ok (lit, dist) p2

/-- the block loop.  `cont = false`: a BFINAL=1 block ends the stream (zlib's object: later input
    is ignored).  `cont = true` (the repaired `Deflate.decompress`): a BFINAL=1 block only ends
    *that deflate stream* — decoding goes on at the next byte boundary, as a new stream whose
    window holds the output so far -/
def blocks (cont : Bool) (inp : Array Nat) (wsize : Nat) : Nat → Nat → Array Nat → Option (Array Nat)
  | 0, _, out => some out
  | fuel + 1, pos, out =>
    match bits inp pos 3 with
    | .eoi => some out
    | .bad => none
    | .ok hdr p0 =>
      let last := hdr % 2
      let typ := hdr / 2
      let r : Fin :=
        if typ = 0 then stored inp p0 out
        else if typ = 1 then symLoop inp fixedLit fixedDist wsize (8 * inp.size + 1) p0 out
        else if typ = 2 then
          match dynamicTables inp p0 with
          | .eoi => .eoi out
          | .bad => .bad
          | .ok (lit, dist) p1 => symLoop inp lit dist wsize (8 * inp.size + 1) p1 out
        else .bad                                 -- invalid block type
      match r with
      | .bad => none
      | .eoi out' => some out'
      | .done p out' =>
        if last = 1 then (if cont then blocks cont inp wsize fuel ((p + 7) / 8 * 8) out' else some out')
        else blocks cont inp wsize fuel p out'

/-- everything `zlib.decompressobj(-wbits)` has returned after being fed `input`
    (in any number of pieces); `none` = it raised `zlib.error` -/
def inflateAll (wbits : Nat) (input : Bytes) : Option Bytes :=
  let inp := input.toArray
  (blocks false inp (2 ^ wbits) (8 * inp.size + 1) 0 #[]).map Array.toList

/-- the same for the repaired `Deflate.decompress` (fix of D6): whenever the zlib stream ends
    (BFINAL=1) the rest of the input goes to a new `decompressobj(-wbits)` primed with the last
    `2^wbits` bytes of output; `none` = one of them raised `zlib.error` -/
def inflateAllSafe (wbits : Nat) (input : Bytes) : Option Bytes :=
  let inp := input.toArray
  (blocks true inp (2 ^ wbits) (8 * inp.size + 1) 0 #[]).map Array.toList

end Lomond.Inflate
