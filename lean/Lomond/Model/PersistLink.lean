/-
  The link between `persist()` (Model/Persist.lean) and the core model (definitions only).

  In Model/Persist.lean a round carries an opaque list of events.  Here the events of round `i` are
  those of the core model's `i`-th connection: `persist` calls
  `websocket.connect(poll=poll, ping_rate=ping_rate, ping_timeout=ping_timeout)`, i.e. `run()` with
  these three parameters (the others are `connect()`'s defaults), iterates over it and passes every
  event on to its own consumer — whose reactions are the core model's `React`.

  A connection attempt *ends* when `run()` returns.  It does not end when the consumer stops iterating
  inside it (closing `persist`'s generator) or when the model's environment script runs out; then
  `persist` has passed on the events so far and yields nothing more: no `BackOff`.
-/
import Lomond.Model.Persist
import Lomond.Model.Core

namespace Lomond.PersistLink
open Lomond Lomond.Core

/-- `event.name == 'ready'` -/
def isReadyEv : Event → Bool
  | .ready _ _ => true
  | _ => false

/-- the events of a trace (newest first), oldest first -/
def eventsOfTrace (tr : List Obs) : List Event :=
  tr.reverse.filterMap fun o => match o with
    | .ev e => some e
    | _ => none

/-- what the world supplies for one pass through `persist`'s loop -/
structure Attempt where
  /-- everything about the connection that `persist` does not decide: connect outcome, upgrade
      request, write faults, masking keys, `auto_pong` / `close_timeout` (`connect()`'s defaults) … -/
  base : Cfg
  /-- the consumer of `persist`'s generator during this connection -/
  react : React
  /-- the environment script of this connection -/
  env : List EnvStep
  /-- what `random()` returns -/
  draw : Rat
  /-- what `exit_event.wait(wait_for)` returns -/
  exit : Bool

/-- `websocket.connect(poll=poll, ping_rate=ping_rate, ping_timeout=ping_timeout)` -/
def attemptCfg (c : Persist.Cfg Nat) (a : Attempt) : Cfg :=
  { a.base with poll := c.poll, pingRate := c.pingRate, pingTimeout := c.pingTimeout }

/-- the events `run()` yields in this attempt -/
def attemptEvents (c : Persist.Cfg Nat) (a : Attempt) : List Event :=
  eventsOfTrace (runAll (attemptCfg c a) a.react a.env).trace

/-- the attempt ended: `run()` returned, `persist`'s `for` loop is over -/
def ended (c : Persist.Cfg Nat) (a : Attempt) : Bool :=
  match run { cfg := attemptCfg c a, react := a.react, env := a.env } with
  | .ok _ _ => true
  | .err _ _ => false

/-- the round of Model/Persist.lean that this attempt is -/
def roundOf (c : Persist.Cfg Nat) (a : Attempt) : Persist.Round Event :=
  { events := attemptEvents c a, draw := a.draw, exit := a.exit }

inductive Status where
  /-- `break`: the generator is finished -/
  | exited
  /-- the given attempts are used up; the next thing persist does is `connect` -/
  | running
  /-- inside a connection attempt that does not end (the consumer stopped iterating there, or the
      environment script of the model ran out) -/
  | inAttempt
  deriving DecidableEq, Repr

/-- **`persist()` over the core model**: the attempts that end are rounds of `Persist.persist`; the first
    attempt that does not end (if `persist` gets that far) contributes its `connect` call and the events
    it yields, and nothing after them. -/
def persistCore (c : Persist.Cfg Nat) (as : List Attempt) : List (Persist.Obs Event Nat) × Status :=
  let good := as.takeWhile (ended c)
  let r := Persist.persist isReadyEv c (good.map (roundOf c))
  match r.2 with
  | .exited => (r.1, .exited)
  | .running =>
    match as.dropWhile (ended c) with
    | [] => (r.1, .running)
    | a :: _ =>
      (r.1 ++ Persist.Obs.connect c.poll c.pingRate c.pingTimeout ::
        (attemptEvents c a).map (fun e => Persist.Obs.yield (Persist.Out.ev e)), .inAttempt)

/-- the attempts that happen: up to and including the first whose `wait` returns true -/
def liveA : List Attempt → List Attempt
  | [] => []
  | a :: as => if a.exit then [a] else a :: liveA as

/-- the attempt's core run yielded no `Ready` -/
def noReady (c : Persist.Cfg Nat) (a : Attempt) : Bool := !(attemptEvents c a).any isReadyEv

/-- number of consecutive attempts, ending with the last one of `as`, whose core run yielded no `Ready` -/
def failStreak (c : Persist.Cfg Nat) (as : List Attempt) : Nat := (as.reverse.takeWhile (noReady c)).length

end Lomond.PersistLink
