/-
  Support definitions for `Lomond/Generated/Code.lean` (the output of harness/py2lean.py).

  Only what the translated Python subset cannot express with Lean's own operators lives here:
  the error value of a `raise`, `math.ceil(a / b)`, `struct.Struct('!..').pack`, the sentinel
  type of an untranslatable site, and (for the differential test only, never used in a theorem)
  reading arguments / printing results of a generated definition on the driver's line protocol.

  Everything else is mapped by the translator to Lean core operators on `Nat` / `Int` / `Rat` /
  `Bool` / `Option` / `List Nat` directly (see the header of harness/py2lean.py).
-/
import Lomond.Model.Basic

namespace Lomond.Py

/-- `raise Cls("msg")`: the class name as written (last component) and the literal message
    (for `"..".format(..)` the template, arguments dropped). -/
structure Err where
  cls : String
  msg : String
  deriving DecidableEq, Repr, Inhabited

/-- A targeted site that is no longer inside the translated subset gets a definition of this
    type: every theorem that applies the definition stops type-checking. -/
structure Untranslated where
  reason : String

/-- `math.ceil(a / b)` for integers `a ≥ 0`, `b > 0` (Python raises ZeroDivisionError for `b = 0`;
    theorems carry `b ≠ 0`).  Exact as long as `a / b` is computed exactly by the float division,
    which holds for the integer-valued times below 2^26 the harness uses (DESIGN §4 "Time"). -/
def ceilDiv (a b : Nat) : Nat := (a + b - 1) / b

/-- `struct.Struct('!<fmt>').pack(v₁, …)`: every field big-endian on its width (`B`=1, `H`=2,
    `Q`=8).  Python raises `struct.error` when a value does not fit; here the high bytes are
    dropped, so theorems carry the range hypotheses. -/
def pack (fields : List (Nat × Nat)) : Bytes :=
  fields.flatMap (fun f => beBytes f.1 f.2)

/-! ### strings, dicts, tables, slices (added with the handshake / message / parser sites) -/

/-- a Python `str` literal: its code points (the same function as `Http.ofString`) -/
def str (s : String) : List Nat := s.toList.map (·.toNat)

/-- `s.lower()` for a `str` whose characters are ASCII or have no lower-case mapping: `A`..`Z`
    move to `a`..`z`, everything else stays.  (Python's `str.lower` applies the full Unicode
    mapping; the strings at the translated sites come from `bytes.decode('ascii', 'replace')`
    -- ASCII or U+FFFD -- or are ASCII literals / base64 text, where the two coincide.  The
    differential test draws from exactly this alphabet.) -/
def strLower (s : List Nat) : List Nat := s.map (fun c => if 65 ≤ c ∧ c ≤ 90 then c + 32 else c)

/-- a `dict` with `str` keys and values as an association list, one entry per key; lookup takes
    the first entry with the key (so a dict filled by `d[k] = v` in program order is the list of
    those assignments, newest first) -/
abbrev Dict := List (List Nat × List Nat)

/-- `d.get(k)` (`none` = `None`) -/
def dictGet? (d : Dict) (k : List Nat) : Option (List Nat) := (d.find? (fun p => p.1 = k)).map (·.2)

/-- `k in d` -/
def dictHas (d : Dict) (k : List Nat) : Bool := (dictGet? d k).isSome

/-- `x in S` for a set of integers given as sorted inclusive ranges (a generated table) -/
def inRanges (rs : List (Nat × Nat)) (c : Nat) : Bool := rs.any (fun r => r.1 ≤ c && c ≤ r.2)

/-- `struct.Struct('!H').unpack(b)[0]` and friends: one big-endian field (Python raises
    `struct.error` unless `len(b)` is the field width; theorems carry the length) -/
def unpack1 (_width : Nat) (b : Bytes) : Nat := beVal b

/-! ### line-protocol glue (driver only) -/

class Parse (α : Type) where
  parse : String → α

class Render (α : Type) where
  render : α → String

export Parse (parse)
export Render (render)

def natOfStr (s : String) : Nat := s.toNat?.getD 0

def intOfStr (s : String) : Int :=
  if s.startsWith "-" then - (Int.ofNat (natOfStr (s.drop 1).toString)) else Int.ofNat (natOfStr s)

instance : Parse Nat := ⟨natOfStr⟩
instance : Parse Int := ⟨intOfStr⟩
instance : Parse Bool := ⟨fun s => s == "1"⟩
instance : Parse Rat := ⟨fun s =>
  match s.splitOn "/" with
  | [n] => mkRat (intOfStr n) 1
  | [n, d] => mkRat (intOfStr n) (natOfStr d)
  | _ => 0⟩
/-- `1.22.333` -> [1, 22, 333] (the empty string is the empty list) -/
def dotted (s : String) : List Nat := if s.isEmpty then [] else (s.splitOn ".").map natOfStr

/-- bytes travel as `x<hex>` (so that the empty string is a token), a `str` as `u<code points
    in decimal, separated by dots>` -/
def listOfTok (s : String) : List Nat :=
  if s.startsWith "u" then dotted (s.drop 1).toString else (bytesOfHex (s.drop 1).toString).getD []

instance : Parse (List Nat) := ⟨listOfTok⟩
/-- a dict travels as `d<key>=<value>;…` with keys and values as `str` tokens (without the `u`) -/
instance : Parse Dict := ⟨fun s =>
  let body := (s.drop 1).toString
  if body.isEmpty then [] else
    (body.splitOn ";").map (fun kv =>
      match kv.splitOn "=" with
      | [k, v] => (dotted k, dotted v)
      | _ => ([], []))⟩
instance {α : Type} [Parse α] : Parse (Option α) := ⟨fun s => if s == "N" then none else some (parse s)⟩
/-- a function parameter (an external function such as `int()`) travels as the finite table of the
    values it takes at the arguments it is applied to: `f<argument>:<value>;…` (arguments as
    dotted decimals); elsewhere it takes the value of the empty token -/
instance {β : Type} [Parse β] : Parse (List Nat → β) := ⟨fun s =>
  let body := (s.drop 1).toString
  let entries : List (List Nat × String) :=
    if body.isEmpty then [] else
      (body.splitOn ";").map (fun kv =>
        match kv.splitOn ":" with
        | [k, v] => (dotted k, v)
        | _ => ([], ""))
  fun x => match entries.find? (fun e => e.1 = x) with
    | some e => parse e.2
    | none => parse ""⟩

/-- a function parameter whose argument is a number (`os.urandom(n)`): the same table, the argument
    being the single decimal `n` -/
instance {β : Type} [Parse β] : Parse (Nat → β) := ⟨fun s =>
  let f : List Nat → β := parse s
  fun n => f [n]⟩

instance : Render Nat := ⟨toString⟩
instance : Render Int := ⟨toString⟩
instance : Render Bool := ⟨fun b => if b then "True" else "False"⟩
instance : Render Unit := ⟨fun _ => "None"⟩
instance : Render Rat := ⟨fun r => toString r.num ++ "/" ++ toString r.den⟩
/-- bytes (and a `str` of characters below 256) as `x<hex>`, any other `str` as `u<dotted decimals>` -/
instance : Render (List Nat) := ⟨fun b =>
  if b.all (· < 256) then "x" ++ hexOfBytes b else "u" ++ ".".intercalate (b.map toString)⟩
instance {α : Type} [Render α] : Render (Option α) := ⟨fun o => match o with | none => "N" | some a => render a⟩
instance {α β : Type} [Render α] [Render β] : Render (α × β) := ⟨fun p => render p.1 ++ "," ++ render p.2⟩
instance {α : Type} [Render α] : Render (Except Err α) := ⟨fun r =>
  match r with
  | .ok a => "ok:" ++ render a
  | .error e => "raise:" ++ e.cls ++ ":" ++ e.msg⟩

end Lomond.Py
