/-
  Support definitions for `Lomond/Generated/Code.lean` (the output of harness/py2lean.py).

  Only what the translated Python subset cannot express with Lean's own operators lives here:
  the error value of a `raise`, `math.ceil(a / b)`, `struct.Struct('!..').pack`, the sentinel
  type of an untranslatable site, and (for the differential test only, never used in a theorem)
  reading arguments / printing results of a generated definition on the driver's line protocol.

  Everything else is mapped by the translator to Lean core operators on `Nat` / `Int` / `Rat` /
  `Bool` / `Option` / `List Nat` directly (see the header of harness/py2lean.py).
-/
import Lomond.Model.Basic

namespace Lomond.Py

/-- `raise Cls("msg")`: the class name as written (last component) and the literal message
    (for `"..".format(..)` the template, arguments dropped). -/
structure Err where
  cls : String
  msg : String
  deriving DecidableEq, Repr, Inhabited

/-- A targeted site that is no longer inside the translated subset gets a definition of this
    type: every theorem that applies the definition stops type-checking. -/
structure Untranslated where
  reason : String

/-- `math.ceil(a / b)` for integers `a ≥ 0`, `b > 0` (Python raises ZeroDivisionError for `b = 0`;
    theorems carry `b ≠ 0`).  Exact as long as `a / b` is computed exactly by the float division,
    which holds for the integer-valued times below 2^26 the harness uses (DESIGN §4 "Time"). -/
def ceilDiv (a b : Nat) : Nat := (a + b - 1) / b

/-- `struct.Struct('!<fmt>').pack(v₁, …)`: every field big-endian on its width (`B`=1, `H`=2,
    `Q`=8).  Python raises `struct.error` when a value does not fit; here the high bytes are
    dropped, so theorems carry the range hypotheses. -/
def pack (fields : List (Nat × Nat)) : Bytes :=
  fields.flatMap (fun f => beBytes f.1 f.2)

/-! ### line-protocol glue (driver only) -/

class Parse (α : Type) where
  parse : String → α

class Render (α : Type) where
  render : α → String

export Parse (parse)
export Render (render)

def natOfStr (s : String) : Nat := s.toNat?.getD 0

def intOfStr (s : String) : Int :=
  if s.startsWith "-" then - (Int.ofNat (natOfStr (s.drop 1).toString)) else Int.ofNat (natOfStr s)

instance : Parse Nat := ⟨natOfStr⟩
instance : Parse Int := ⟨intOfStr⟩
instance : Parse Bool := ⟨fun s => s == "1"⟩
instance : Parse Rat := ⟨fun s =>
  match s.splitOn "/" with
  | [n] => mkRat (intOfStr n) 1
  | [n, d] => mkRat (intOfStr n) (natOfStr d)
  | _ => 0⟩
/-- bytes travel as `x<hex>` (so that the empty string is a token) -/
instance : Parse (List Nat) := ⟨fun s => (bytesOfHex (s.drop 1).toString).getD []⟩
instance {α : Type} [Parse α] : Parse (Option α) := ⟨fun s => if s == "N" then none else some (parse s)⟩

instance : Render Nat := ⟨toString⟩
instance : Render Int := ⟨toString⟩
instance : Render Bool := ⟨fun b => if b then "True" else "False"⟩
instance : Render Unit := ⟨fun _ => "None"⟩
instance : Render Rat := ⟨fun r => toString r.num ++ "/" ++ toString r.den⟩
instance : Render (List Nat) := ⟨fun b => "x" ++ hexOfBytes b⟩
instance {α : Type} [Render α] : Render (Option α) := ⟨fun o => match o with | none => "N" | some a => render a⟩
instance {α β : Type} [Render α] [Render β] : Render (α × β) := ⟨fun p => render p.1 ++ "," ++ render p.2⟩
instance {α : Type} [Render α] : Render (Except Err α) := ⟨fun r =>
  match r with
  | .ok a => "ok:" ++ render a
  | .error e => "raise:" ++ e.cls ++ ":" ++ e.msg⟩

end Lomond.Py
