/-
  Model of the connection phase of `WebsocketSession.run` when a proxy may be configured:

    * `WebSocket.__init__`                 (URL → scheme / host / port with defaults)   `mkTarget`
    * `WebsocketSession._connect`          (scheme → mapping key, falsy entry ⇒ direct) `proxyChoice`, `run`
    * `WebsocketSession._connect_proxy`    (URL → host / port defaults / credentials, CONNECT
                                            request, blocking read loop, TLS wrap)       `connectProxy`
    * `proxy.build_request`                                                              `buildConnect`
    * `proxy.ProxyParser.parse` driven by `Parser.feed` (`_ReadUntil`)                   `readLoop`
    * the start of `run()` up to the `Connected` event                                   `run`

  The result is ONE ordered log (`List Io`) of everything the session does to the outside
  world (connects, writes, reads, TLS wraps) interleaved with the events it yields.

  External things are parameters: the outcome of `_connect_sock`, of each `sendall`, of each
  `recv(1024)`, of `_wrap_socket`, and the bytes of `WebSocket.build_request()`.

  `urllib.parse.urlparse` (CPython 3.12) is modelled for printable-ASCII URLs without
  brackets in the netloc (no IPv6 literals); a bracket is reported as `ValueError`.
  Strings are `List Nat` code points (`Http.Str`).
-/
import Lomond.Model.Basic
import Lomond.Model.Http
import Lomond.Model.Core
import Lomond.Generated.Tables

namespace Lomond.Proxy
open Lomond Lomond.Http

/-! ### `urlparse` -/

def isAlpha (c : Nat) : Bool := (65 ≤ c && c ≤ 90) || (97 ≤ c && c ≤ 122)
/-- `urllib.parse.scheme_chars` -/
def isSchemeChar (c : Nat) : Bool := isAlpha c || isDigit c || c == 43 || c == 45 || c == 46
/-- the delimiters that end the netloc: `/ ? #` -/
def isNetlocEnd (c : Nat) : Bool := c == 47 || c == 63 || c == 35

/-- `s.rpartition(sep)` for a one-character separator: (before, found?, after);
    not found ⇒ `('', '', s)` -/
def rpartition (sep : Nat) (s : Str) : Str × Bool × Str :=
  let (a, f, b) := partition sep s.reverse
  if f then (b.reverse, true, a.reverse) else ([], false, s)

/-- scheme split of `urlsplit`: `(scheme, rest)` -/
def splitScheme (s : Str) : Str × Str :=
  let (pre, found, post) := partition 58 s
  match pre with
  | c :: _ => if found ∧ isAlpha c ∧ pre.all isSchemeChar then (lower pre, post) else ([], s)
  | [] => ([], s)

/-- `_splitnetloc(url, 2)` when `url[:2] == '//'`, else `''` -/
def splitNetloc (rest : Str) : Str :=
  match rest with
  | 47 :: 47 :: r => r.takeWhile (fun c => !isNetlocEnd c)
  | _ => []

/-- what `WebSocket.__init__` / `_connect_proxy` read from a `urlparse` result -/
structure Url where
  scheme : Str
  netloc : Str
  deriving Repr, DecidableEq

/-- `urlparse(url)`; `none` = `ValueError` (here: any bracket in the netloc — IPv6 literals are
    outside the model) -/
def parseUrl (s : Str) : Option Url :=
  let (scheme, rest) := splitScheme s
  let netloc := splitNetloc rest
  if netloc.contains 91 ∨ netloc.contains 93 then none
  else some { scheme := scheme, netloc := netloc }

/-- `_userinfo` : (username, password) -/
def Url.userinfo (u : Url) : Option Str × Option Str :=
  let (userinfo, haveInfo, _) := rpartition 64 u.netloc
  if haveInfo then
    let (user, havePw, pw) := partition 58 userinfo
    (some user, if havePw then some pw else none)
  else (none, none)

def Url.username (u : Url) : Option Str := u.userinfo.1
def Url.password (u : Url) : Option Str := u.userinfo.2

/-- `_hostinfo` without brackets: (hostname, port string or None) -/
def Url.hostinfo (u : Url) : Str × Option Str :=
  let (_, _, hostinfo) := rpartition 64 u.netloc
  let (h, _, p) := partition 58 hostinfo
  (h, if p = [] then none else some p)

/-- `.hostname` : `None` when empty; lower-cased except for a `%zone` suffix -/
def Url.hostname (u : Url) : Option Str :=
  let h := u.hostinfo.1
  if h = [] then none
  else
    let (a, pc, z) := partition 37 h
    some (lower a ++ (if pc then [37] else []) ++ z)

/-- value of a string of ASCII digits -/
def decVal (ds : Str) : Nat := ds.foldl (fun acc c => acc * 10 + (c - 48)) 0

/-- `sys.int_info.default_max_str_digits` (CPython ≥ 3.11): `int()` of more digits is a ValueError -/
def pyMaxStrDigits : Nat := 4300

/-- `.port` : `none` = ValueError; `some none` = None; `some (some n)` = n -/
def Url.port (u : Url) : Option (Option Nat) :=
  match u.hostinfo.2 with
  | none => some none
  | some p =>
    if p.all isDigit ∧ p.length ≤ pyMaxStrDigits then
      let n := decVal p
      if n ≤ 65535 then some (some n) else none
    else none

/-- `int(url.port) if url.port else default` -/
def portOr (p : Option Nat) (dflt : Nat) : Nat :=
  match p with
  | some n => if n = 0 then dflt else n
  | none => dflt

/-! ### the target: `WebSocket.__init__` -/

structure Target where
  /-- `websocket.host` (`None` when the URL has no host) -/
  host : Option Str
  port : Nat
  /-- `websocket.is_secure` : scheme == 'wss' -/
  secure : Bool
  deriving Repr, DecidableEq

/-- `WebSocket(url)` : `none` = the constructor raises ValueError -/
def mkTarget (url : Str) : Option Target :=
  match parseUrl url with
  | none => none
  | some u =>
    match u.port with
    | none => none
    | some p =>
      let secure : Bool := u.scheme = ofString "wss"
      some { host := u.hostname, port := portOr p (if secure then 443 else 80), secure := secure }

/-! ### `proxy.build_request` -/

def b64Char (i : Nat) : Nat :=
  if i < 26 then 65 + i else if i < 52 then 97 + (i - 26) else if i < 62 then 48 + (i - 52)
  else if i = 62 then 43 else 47

/-- `base64.standard_b64encode` -/
def b64encode : Bytes → Bytes
  | [] => []
  | [a] => [b64Char (a / 4), b64Char ((a % 4) * 16), 61, 61]
  | [a, b] => [b64Char (a / 4), b64Char ((a % 4) * 16 + b / 16), b64Char ((b % 16) * 4), 61]
  | a :: b :: c :: r =>
    b64Char (a / 4) :: b64Char ((a % 4) * 16 + b / 16) :: b64Char ((b % 16) * 4 + c / 64)
      :: b64Char (c % 64) :: b64encode r

/-- `'{}'.format(port)` -/
def decimal (n : Nat) : Str := ofString (toString n)

/-- the request line `CONNECT host:port HTTP/1.1` (ASCII: `.encode('utf-8')` is the identity) -/
def connectLine (host : Str) (port : Nat) : Bytes :=
  strBytes "CONNECT " ++ host ++ [58] ++ decimal port ++ strBytes " HTTP/1.1"

/-- `proxy.build_request(host, port, proxy_username, proxy_password)`;
    `none` = `host` is `None` (`host.encode` raises AttributeError) -/
def buildConnect (host : Option Str) (port : Nat) (user pw : Option Str) : Option Bytes :=
  match host with
  | none => none
  | some h =>
    let creds : List (Bytes × Bytes) :=
      match user with
      | some u =>
        if u = [] then []
        else
          let c := match pw with | none => u | some p => u ++ [58] ++ p
          [(strBytes "Proxy-Authorization:", strBytes "Basic " ++ b64encode c)]
      | none => []
    let hdrs : List (Bytes × Bytes) :=
      [(strBytes "Host", h), (strBytes "Proxy-Connection", strBytes "keep-alive"),
       (strBytes "Connection", strBytes "keep-alive")] ++ creds
    some (joinCRLF ([connectLine h port] ++ hdrs.map (fun x => x.1 ++ strBytes ": " ++ x.2) ++ [crlf]))

/-! ### the I/O log -/

/-- outcome of one `sock.recv(1024)` -/
inductive ReadOutcome
  /-- `recv` returned these bytes; `data []` is end-of-stream -/
  | data (bs : Bytes)
  /-- `socket.error` -/
  | err
  /-- `socket.timeout` after the 30 s the socket was given (also: nothing more scripted) -/
  | timeout
  deriving Repr, DecidableEq

/-- why `ConnectFail` was reported -/
inductive FailKind
  | badUrl            -- urlparse(proxy) raised ValueError
  | badPort           -- proxy_url.port raised ValueError
  | proxyConnect      -- _SocketFail('unable to connect to proxy; …')
  | connect           -- _SocketFail('unable to connect') on the direct path
  | noHost            -- websocket.host is None: build_request raises AttributeError
  | writeErr          -- sendall(CONNECT …) raised socket.error
  | readErr           -- recv raised socket.error
  | timeout           -- recv raised socket.timeout
  | parseEof          -- ProxyFail('proxy parse fail; {}', ParseError('unexpected eof of file'))
  | parseTooLong      -- ProxyFail('proxy parse fail; {}', ParseError("expected b'\r\n\r\n'"))
  | proxyStatus (code : Option (Bool × Nat))   -- ProxyFail('proxy fail; {} {}', code, status)
  | wrap              -- _wrap_socket raised
  | requestFailed     -- 'request failed; …' (TransportFail out of session.write)
  deriving Repr, DecidableEq

inductive Ev
  | connecting
  | connectFail (k : FailKind)
  /-- `Connected(url, proxy=…)` -/
  | connected (proxy : Option Str)
  deriving Repr, DecidableEq

inductive Io
  | ev (e : Ev)
  /-- `_connect_sock(host, port, ssl)` -/
  | connectTo (host : Option Str) (port : Nat) (ssl : Bool)
  /-- `sendall(bs)`; `tls` = through the wrapper made by `_wrap_socket` after the tunnel;
      `ok = false` = it raised `socket.error` (how much of `bs` left the host is unknown) -/
  | write (tls : Bool) (bs : Bytes) (ok : Bool)
  /-- `recv(1024)` -/
  | read (o : ReadOutcome)
  /-- `_wrap_socket(sock, host)` -/
  | wrap (host : Option Str) (ok : Bool)
  deriving Repr, DecidableEq

/-- the configuration: the `WebSocket` object as the session sees it -/
structure Cfg where
  target : Target
  /-- `websocket.proxies.get('http')` / `.get('https')`; `none` = missing or `None` -/
  proxyHttp : Option Str
  proxyHttps : Option Str
  /-- `websocket.build_request()` -/
  request : Bytes

/-- the environment: outcomes of the socket calls -/
structure Env where
  /-- `_connect_sock` succeeds -/
  connectOk : Bool
  /-- the `k`-th `sendall` raises `socket.error` -/
  writeFails : Nat → Bool
  /-- outcomes of the successive `recv(1024)` -/
  reads : List ReadOutcome
  /-- `_wrap_socket` succeeds -/
  wrapOk : Bool

/-! ### `ProxyParser` over `Parser.feed` -/

/-- `int()` of the status token as `Response.__init__` computes it, including CPython's
    4300-digit limit (ValueError ⇒ `status_code = None`) -/
def statusOf (hdr : Bytes) : Option (Bool × Nat) :=
  let tok := (splitNone2 ((splitCRLF hdr).headD [])).getD 1 []
  if (tok.filter isDigit).length > pyMaxStrDigits then none else (parseResponse hdr).statusCode

/-- `while response is None: data = sock.recv(1024); for response in parser.feed(data): break`
    `buf` is `Parser._buffer`.  Returns the reads performed and `ok` / the failure. -/
def readLoop : List ReadOutcome → Bytes → List Io × Except FailKind Unit
  | [], _ => ([.read .timeout], .error .timeout)
  | .timeout :: _, _ => ([.read .timeout], .error .timeout)
  | .err :: _, _ => ([.read .err], .error .readErr)
  | .data d :: rest, buf =>
    if d = [] then
      -- feed(b''): ParseError('unexpected eof of file') thrown into parse() ⇒ ProxyFail
      ([.read (.data [])], .error .parseEof)
    else
      let buf' := buf ++ d
      match Core.findSep Gen.proxySep buf' with
      | none =>
        if buf'.length > Gen.proxyMax then ([.read (.data d)], .error .parseTooLong)
        else
          let (l, r) := readLoop rest buf'
          (.read (.data d) :: l, r)
      | some i =>
        let e := i + Gen.proxySep.length
        if e > Gen.proxyMax then ([.read (.data d)], .error .parseTooLong)
        else
          let code := statusOf (buf'.take e)
          if code ≠ some (false, 200) then ([.read (.data d)], .error (.proxyStatus code))
          else ([.read (.data d)], .ok ())

/-! ### `_connect`, `_connect_proxy`, `run` -/

/-- `proxies.get('https' if is_secure else 'http')`, falsy ⇒ no proxy -/
def proxyChoice (c : Cfg) : Option Str :=
  match (if c.target.secure then c.proxyHttps else c.proxyHttp) with
  | some p => if p = [] then none else some p
  | none => none

/-- `_connect_proxy(proxy_url)` : the log, and `ok tls?` / the failure -/
def connectProxy (c : Cfg) (e : Env) (purl : Str) : List Io × Except FailKind Bool :=
  match parseUrl purl with
  | none => ([], .error .badUrl)
  | some u =>
    match u.port with
    | none => ([], .error .badPort)
    | some p =>
      let https : Bool := u.scheme = ofString "https"
      let port := portOr p (if https then 443 else 80)
      let l0 : List Io := [.connectTo u.hostname port https]
      if ¬ e.connectOk then (l0, .error .proxyConnect)
      else
        match buildConnect c.target.host c.target.port u.username u.password with
        | none => (l0, .error .noHost)
        | some req =>
          if e.writeFails 0 then (l0 ++ [.write false req false], .error .writeErr)
          else
            let l1 := l0 ++ [.write false req true]
            let lr := (readLoop e.reads []).1
            match (readLoop e.reads []).2 with
            | .error k => (l1 ++ lr, .error k)
            | .ok () =>
              if c.target.secure then
                if e.wrapOk then (l1 ++ lr ++ [.wrap c.target.host true], .ok true)
                else (l1 ++ lr ++ [.wrap c.target.host false], .error .wrap)
              else (l1 ++ lr, .ok false)

/-- `_send_request()` and the `Connected` event; `k` = index of this `sendall` -/
def sendRequest (c : Cfg) (e : Env) (tls : Bool) (k : Nat) (proxy : Option Str) : List Io :=
  if e.writeFails k then [.write tls c.request false, .ev (.connectFail .requestFailed)]
  else [.write tls c.request true, .ev (.connected proxy)]

/-- `run()` from `Connecting` up to and including `ConnectFail` / `Connected` -/
def run (c : Cfg) (e : Env) : List Io :=
  .ev .connecting ::
  match proxyChoice c with
  | some purl =>
    (connectProxy c e purl).1 ++
    match (connectProxy c e purl).2 with
    | .error k => [.ev (.connectFail k)]
    | .ok tls => sendRequest c e tls 1 (some purl)
  | none =>
    .connectTo c.target.host c.target.port c.target.secure ::
    if ¬ e.connectOk then [.ev (.connectFail .connect)]
    else sendRequest c e false 0 none

end Lomond.Proxy
