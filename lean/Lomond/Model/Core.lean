/-
  The shared core model: parser.py (`Parser.feed`), frame_parser.py, stream.py,
  message.py, websocket.py (`feed`, `close`, `_on_close`, `on_disconnect`, send methods)
  and session.py (`run`, `write`, `send`, timers).

  Generators are defunctionalised: Python's lazy pipeline
      run() ← WebSocket.feed ← WebsocketStream.feed ← Parser.feed
  pulls one parser output at a time and lets the consumer (stream, websocket, session
  bookkeeping, the *application's reaction*) run before the next byte is looked at.  The model
  does exactly that: `feedLoop` takes one *bite* (one iteration of `Parser.feed`'s `while`),
  pushes its output through every layer including the application, then continues with the
  unread rest of the chunk.

  Exceptions are values (`Exn`); `GeneratorExit` (abandoning the event loop) is one of them.
  The environment (socket reads, selector, clock, write outcomes) and the application
  (`React`) are parameters.
-/
import Lomond.Model.Basic
import Lomond.Model.Utf8
import Lomond.Model.Frame
import Lomond.Model.Http

namespace Lomond.Core
open Lomond

/-- one `Bool` per behaviour in which the pinned commit differed from the property
    (`true` = the repaired behaviour). -/
structure Variant where
  /-- D1: `control frame ∧ length > 125` rejected when the length is known -/
  ctrlLen : Bool := true
  /-- D2: `_is_text` survives a FIN control frame -/
  keepIsText : Bool := true
  /-- D9: incremental UTF-8 validation chosen per message (RSV1 of its first frame) -/
  perMsgValidate : Bool := true
  /-- D3: `close()` validates code range and payload length (ValueError) -/
  closeArgs : Bool := true
  /-- D4: `run()`'s cleanup covers every yield after the socket exists -/
  cleanup : Bool := true
  /-- D5: Sec-WebSocket-Accept compared exactly -/
  strictAccept : Bool := false
  deriving Repr, DecidableEq, Inhabited

inductive Event
  | connecting
  | connectFail (kind : String)
  | connected (proxy : Bool)
  | ready (protocol : Option Http.Str) (deflate : Bool)
  | rejected (reason : Http.Str)
  | text (cps : List Nat)
  | binary (data : Bytes)
  | ping (data : Bytes)
  | pong (data : Bytes)
  | closing (code : Option Nat) (reason : List Nat)
  | closed (code : Option Nat) (reason : List Nat)
  | protocolError (msg : String) (critical : Bool)
  | poll
  | unresponsive
  | disconnected (kind : String) (graceful : Bool)
  deriving Repr, DecidableEq, Inhabited

/-- argument of an API call as the application passed it -/
inductive Arg
  | bytes (b : Bytes)
  | str (cps : List Nat)      -- may contain lone surrogates
  | other                     -- bytearray, int, None, …
  deriving Repr, DecidableEq, Inhabited

inductive Act
  | sendText (a : Arg) (compress : Bool)
  | sendBinary (a : Arg) (compress : Bool)
  | sendPing (a : Arg)
  | sendPong (a : Arg)
  /-- `ws.close(code, reason)`; `code = none` is Python `None` -/
  | close (code : Option Nat) (reason : Arg)
  /-- `ws.session.close()` -/
  | sessionClose
  /-- stop iterating here; `withBlock` = the loop sits in `with ws:` and an exception leaves it -/
  | abandon (withBlock : Bool)
  deriving Repr, DecidableEq, Inhabited

inductive ActRes
  | ok | typeError | valueError | structError | wsClosed | wsClosing | wsUnavailable | transportFail
  deriving Repr, DecidableEq, Inhabited

inductive Obs
  | ev (e : Event)
  | wr (data : Bytes)                                  -- `sendall` returned
  | wrz (opcode : Nat) (plain : Bytes)                  -- compressed frame written (payload abstract)
  | wrFail (data : Bytes)                              -- `sendall` raised
  | sockClose
  | selClose
  | res (r : ActRes)
  | tick (now : Nat)                                   -- the clock advanced (inside `selector.wait`)
  | incomplete                                         -- environment script exhausted
  deriving Repr, DecidableEq, Inhabited

inductive RecvOutcome
  | data (bs : Bytes)
  | eof
  | sockErr        -- socket.error from recv_into
  | otherErr       -- any other exception from recv_into
  deriving Repr, DecidableEq, Inhabited

inductive EnvStep
  /-- `selector.wait` returns after `dt` ticks; `some o` = readable, `recv_into` then gives `o` -/
  | wait (dt : Nat) (readable : Option RecvOutcome)
  /-- `selector.wait` raises -/
  | selErr
  deriving Repr, DecidableEq, Inhabited

inductive ConnOutcome
  | ok (proxy : Bool)
  | socketFail          -- `_SocketFail` from `_connect`
  | otherFail           -- any other exception
  /-- `_connect` returned a socket, but `self._selector_cls(sock)` (the first statement after the
      `Connected` event inside `run()`'s `try`) raises an ordinary exception, e.g. OSError EMFILE -/
  | selFail (proxy : Bool)
  deriving Repr, DecidableEq, Inhabited

/-- application: the whole event history so far (newest first) ↦ calls it makes now -/
abbrev React := List Event → List Act

structure Cfg where
  v : Variant := {}
  poll : Nat := 5
  pingRate : Nat := 30
  /-- 0 = `None`/0 (disabled) -/
  pingTimeout : Nat := 0
  autoPong : Bool := true
  /-- 0 = `None`/0 (disabled) -/
  closeTimeout : Nat := 30
  connect : ConnOutcome := .ok false
  /-- the bytes of the upgrade request (`WebSocket.build_request()`) -/
  request : Bytes := []
  /-- `b64encode(sha1(key + WS_KEY))` as characters -/
  challenge : Http.Str := []
  /-- does the k-th `sendall` (0-based, per connection) raise? -/
  writeFails : Nat → Bool := fun _ => false
  /-- masking key of the k-th frame built (0-based, per connection) -/
  maskKey : Nat → Bytes := fun _ => [0, 0, 0, 0]
  /-- streaming raw inflate of the whole compressed history: `none` = zlib.error -/
  inflate : Nat → Bytes → Option Bytes := fun _ _ => none

/-- suspended point of `FrameParser.parse` -/
inductive Cont
  | header
  | hdr2
  | len16 (b0 : Nat) (maskBit : Bool)
  | len64 (b0 : Nat) (maskBit : Bool)
  | maskKey (b0 : Nat) (len : Nat)
  | payload (f : Frame)
  deriving Repr, DecidableEq, Inhabited

structure PState where
  cont : Cont := .header
  /-- `_ReadBytes.remaining - 1` (the grammar never asks for 0 bytes) -/
  remPred : Nat := 0
  /-- awaitable is `_ReadUtf8` -/
  utf8 : Bool := false
  buf : Bytes := []
  /-- `Utf8Validator._state` -/
  dfa : Nat := 0
  isText : Bool := false
  compression : Bool := false
  /-- repaired D9 only: RSV1 of the current text message's first frame -/
  isCompressed : Bool := false
  deriving Repr, DecidableEq, Inhabited

inductive Exn
  | parse (msg : String)
  | protocol (msg : String)
  | critical (msg : String)
  | forceDisconnect (kind : String)
  | socketFail (kind : String)
  | other (kind : String)
  | genExit
  /-- raised in `run()`'s own frame while `WebSocket.feed` is suspended at a `yield` -/
  | outer (x : Exn)
  | scriptEnd
  deriving Repr, Inhabited

structure Sys where
  cfg : Cfg
  react : React
  env : List EnvStep
  -- session
  sockOpen : Bool := false
  selOpen : Bool := false
  ready : Bool := false
  pollStart : Option Nat := none
  nextPing : Nat := 0
  lastPong : Nat := 0
  startTime : Option Nat := none
  now : Nat := 0
  -- WebSocket.State
  closing : Bool := false
  closed : Bool := false
  sentCloseTime : Option Nat := none
  compression : Option Http.DeflateCfg := none
  -- WebsocketStream
  parsedResponse : Bool := false
  frames : List Frame := []
  decompress : Bool := false
  inflHist : Bytes := []
  inflOut : Nat := 0
  -- FrameParser
  p : PState := {}
  -- bookkeeping
  keyCtr : Nat := 0
  writeCtr : Nat := 0
  hist : List Event := []
  abandonedWith : Bool := false
  trace : List Obs := []      -- newest first

inductive Res (α : Type)
  | ok (a : α) (s : Sys)
  | err (x : Exn) (s : Sys)

abbrev M (α : Type) := Sys → Res α

@[inline] def M.pure (a : α) : M α := fun s => .ok a s
@[inline] def M.bind (m : M α) (f : α → M β) : M β := fun s =>
  match m s with
  | .ok a s' => f a s'
  | .err x s' => .err x s'

instance : Monad M where
  pure := M.pure
  bind := M.bind

def getS : M Sys := fun s => .ok s s
def modS (f : Sys → Sys) : M Unit := fun s => .ok () (f s)
def throwE (x : Exn) : M α := fun s => .err x s
def tryC (m : M α) (h : Exn → M α) : M α := fun s =>
  match m s with
  | .ok a s' => .ok a s'
  | .err x s' => h x s'
def liftE (r : Except Exn α) : M α := fun s =>
  match r with
  | .ok a => .ok a s
  | .error x => .err x s

def log (o : Obs) : M Unit := modS fun s => { s with trace := o :: s.trace }

def sessionTime (s : Sys) : Nat :=
  match s.startTime with
  | none => 0
  | some t0 => s.now - t0

/-! ### session.write / send -/

/-- `WebsocketSession._close_socket()` -/
def closeSocket : M Unit := fun s =>
  if s.sockOpen then .ok () { s with sockOpen := false, trace := .sockClose :: s.trace }
  else .ok () s

/-- outcome of `session.write(data)` -/
def write (data : Bytes) (z : Option (Nat × Bytes) := none) : M ActRes := fun s =>
  if ¬ s.sockOpen then .ok .wsUnavailable s
  else if s.closed then .ok .wsClosed s
  else if s.closing then .ok .wsClosing s
  else
    let k := s.writeCtr
    let s := { s with writeCtr := k + 1 }
    if s.cfg.writeFails k then .ok .transportFail { s with trace := .wrFail data :: s.trace }
    else
      match z with
      | none => .ok .ok { s with trace := .wr data :: s.trace }
      | some (op, plain) => .ok .ok { s with trace := .wrz op plain :: s.trace }

/-- `session.send(opcode, data)` / `send_compressed`: builds the frame (drawing a key), writes it -/
def sendFrame (opcode : Nat) (payload : Bytes) (compressedOf : Option Bytes := none) : M ActRes := fun s =>
  let key := s.cfg.maskKey s.keyCtr
  let s := { s with keyCtr := s.keyCtr + 1 }
  match compressedOf with
  | none =>
    match Frame.build opcode payload key with
    | some bytes => write bytes none s
    | none => .ok .valueError s      -- FrameBuildError: payload ≥ 2^63, not reachable in the driver
  | some plain => write [] (some (opcode, plain)) s

def wsError (r : ActRes) : Bool :=
  r = .wsClosed ∨ r = .wsClosing ∨ r = .wsUnavailable ∨ r = .transportFail

def hasSurrogate (cps : List Nat) : Bool := cps.any (fun c => 0xD800 ≤ c && c ≤ 0xDFFF)

/-- `str.encode('utf-8', errors='replace')`: lone surrogates become `?` -/
def encodeReplace (cps : List Nat) : Bytes :=
  Utf8.encode (cps.map (fun c => if 0xD800 ≤ c ∧ c ≤ 0xDFFF then 63 else c))

/-- `WebSocket.close(code, reason)` -/
def wsClose (code : Option Nat) (reason : Arg) : M ActRes := fun s =>
  if s.closed then .ok .ok s
  else if s.closing then .ok .ok s
  else
    let tooBig : Bool := match code with | some c => decide (c ≥ 65536) | none => false
    match reason with
    | .other =>
      -- the repaired code tests the code range (ValueError) before it touches `reason`;
      -- otherwise AttributeError: no `.encode` (reported as TypeError-class)
      if s.cfg.v.closeArgs ∧ tooBig then .ok .valueError s else .ok .typeError s
    | _ =>
      let rb : Bytes := match reason with
        | .bytes b => b
        | .str cps => encodeReplace cps
        | .other => []
      let payload := buildClosePayload code rb
      if s.cfg.v.closeArgs ∧ (tooBig ∨ payload.length > 125) then .ok .valueError s
      else if tooBig then .ok .structError s
      else
        match sendFrame Gen.opClose payload none s with
        | .ok _ s' =>
          .ok .ok { s' with closing := true, sentCloseTime := some (sessionTime s') }
        | .err x s' => .err x s'

def sendData (opcode : Nat) (payload : Bytes) (compress : Bool) : M ActRes := fun s =>
  if compress ∧ s.compression.isSome then sendFrame opcode [] (some payload) s
  else sendFrame opcode payload none s

/-- the harness records the outcome of every application call -/
def logRes (m : M ActRes) : M Unit := do
  let r ← m
  log (.res r)

def doAct (a : Act) : M Unit :=
  match a with
  | .sendText (.str cps) c =>
    logRes (if hasSurrogate cps then pure .valueError else sendData Gen.opText (Utf8.encode cps) c)
  | .sendText _ _ => logRes (pure .typeError)
  | .sendBinary (.bytes b) c => logRes (sendData Gen.opBinary b c)
  | .sendBinary _ _ => logRes (pure .typeError)
  | .sendPing (.bytes b) =>
    logRes (if b.length > 125 then pure .valueError else sendFrame Gen.opPing b none)
  | .sendPing _ => logRes (pure .typeError)
  | .sendPong (.bytes b) =>
    logRes (if b.length > 125 then pure .valueError else sendFrame Gen.opPong b none)
  | .sendPong _ => logRes (pure .typeError)
  | .close code reason => logRes (wsClose code reason)
  | .sessionClose => logRes (do closeSocket; pure ActRes.ok)
  | .abandon w => fun s => .err .genExit { s with abandonedWith := w }

def doActs : List Act → M Unit
  | [] => pure ()
  | a :: r => do doAct a; doActs r

/-- `yield event` to the application: it sees the event and reacts -/
def yieldEv (e : Event) : M Unit := do
  modS fun s => { s with trace := .ev e :: s.trace, hist := e :: s.hist }
  let s ← getS
  doActs (s.react s.hist)

/-! ### timers: `_regular` -/

def ceilDiv (a b : Nat) : Nat := (a + b - 1) / b

/-- `_check_poll` + `yield events.Poll()` -/
def checkPoll : M Unit := do
  let s ← getS
  let t := sessionTime s
  let fire : Bool := match s.pollStart with
    | none => true
    | some p0 => decide (t - p0 ≥ s.cfg.poll)
  if fire then do
    modS fun s => { s with pollStart := some t }
    yieldEv .poll
  else pure ()

/-- `_check_auto_ping` -/
def checkAutoPing : M Unit := do
  let s ← getS
  let t := sessionTime s
  if s.cfg.pingRate ≠ 0 ∧ t > s.nextPing then do
    modS fun s => { s with nextPing := ceilDiv t s.cfg.pingRate * s.cfg.pingRate }
    let _ ← sendFrame Gen.opPing [] none      -- WebSocketError swallowed
    pure ()
  else pure ()

/-- `_check_ping_timeout` + `yield Unresponsive` + `raise _ForceDisconnect` -/
def checkPingTimeout : M Unit := do
  let s ← getS
  let t := sessionTime s
  if s.cfg.pingTimeout ≠ 0 ∧ t - s.lastPong > s.cfg.pingTimeout then do
    yieldEv .unresponsive
    throwE (.forceDisconnect "ping-timeout")
  else pure ()

/-- `_check_close_timeout` -/
def checkCloseTimeout : M Unit := do
  let s ← getS
  let t := sessionTime s
  if s.cfg.closeTimeout ≠ 0 then
    match s.sentCloseTime with
    | none => pure ()
    | some ct => if t ≥ ct + s.cfg.closeTimeout then throwE (.forceDisconnect "close-timeout") else pure ()
  else pure ()

/-- `_regular()` (run only once the websocket is ready) -/
def regular : M Unit := do
  let s ← getS
  if s.ready then do
    checkPoll
    checkAutoPing
    checkPingTimeout
    checkCloseTimeout
  else pure ()

/-- `_on_event` -/
def onEvent (e : Event) : M Unit := fun s =>
  match e with
  | .ready _ _ => .ok () { s with lastPong := 0, nextPing := 0, startTime := some s.now, ready := true }
  | .ping data =>
    if s.cfg.autoPong then
      if data.length > 125 then .err (.other "error") s     -- ValueError from send_pong
      else match sendFrame Gen.opPong data none s with
        | .ok _ s' => .ok () s'
        | .err x s' => .err x s'
    else .ok () s
  | .pong _ => .ok () { s with lastPong := sessionTime s }
  | _ => .ok () s

/-- `WebSocket.on_disconnect()` -/
def onDisconnect : M Unit := do
  closeSocket
  modS fun s => { s with closing := false, closed := true }

/-- an event leaves `WebSocket.feed` at a `yield`: `run()` does its bookkeeping, hands the event
    to the application, then runs `_regular()`.  If anything raised in `run()`'s frame (including
    abandonment), the suspended `feed` generator is finalised: when the `yield` sits in the `try`
    body its `except GeneratorExit` calls `on_disconnect()`. -/
def feedYield (inTry : Bool) (e : Event) : M Unit :=
  tryC (do onEvent e; yieldEv e; regular) fun x => do
    (if inTry then onDisconnect else pure ())
    throwE (.outer x)

/-! ### FrameParser.parse, one resumption at a time -/

inductive Out
  | header (data : Bytes)
  | frame (f : Frame)
  deriving Repr, Inhabited

def isReservedOp (op : Nat) : Bool := Gen.reservedOpcodes.contains op

/-- `frame.validate()` on a frame whose payload is still empty (+ the repaired length rule) -/
def validateFrame (v : Variant) (compression : Bool) (f : Frame) (len : Nat) : Except Exn Unit :=
  -- `frame.validate()`: its own control-length test looks at the still-empty payload (vacuous)
  if (if compression then f.rsv2 ≠ 0 ∨ f.rsv3 ≠ 0 else f.rsv1 ≠ 0 ∨ f.rsv2 ≠ 0 ∨ f.rsv3 ≠ 0) then
    .error (.protocol "reserved bits set")
  else if isReservedOp f.opcode then .error (.protocol "opcode is reserved")
  else if f.fin = 0 ∧ f.isControl then .error (.protocol "control frames may not be fragmented")
  -- the length rule, applied where the length is known (repair of D1)
  else if v.ctrlLen ∧ f.isControl ∧ len > 125 then
    .error (.protocol "control frames must be <= 125 bytes in length")
  else .ok ()

/-- `ClientFrameParser.on_frame` + the `yield frame`; returns the parser state awaiting `read(2)` -/
def frameDone (v : Variant) (p : PState) (f : Frame) : Except Exn (PState × Option Out) :=
  if f.mask then .error (.protocol "server sent masked frame")
  else
    let noValidate := if v.perMsgValidate then p.compression ∧ p.isCompressed else p.compression
    let dfa := if ¬ noValidate ∧ f.fin ≠ 0 ∧ (f.isText ∨ f.isContinuation) then 0 else p.dfa
    let isText := if f.fin ≠ 0 ∧ (¬ v.keepIsText ∨ ¬ f.isControl) then false else p.isText
    .ok ({ p with cont := .hdr2, remPred := 1, utf8 := false, buf := [], dfa := dfa, isText := isText },
         some (.frame f))

/-- mask key known (or absent): construct the frame, validate, ask for the payload -/
def gotMask (v : Variant) (p : PState) (b0 len : Nat) (key : Option Bytes) :
    Except Exn (PState × Option Out) :=
  let f : Frame := { opcode := b0 % 16, payload := [], fin := b0 / 128, rsv1 := b0 / 64 % 2,
                     rsv2 := b0 / 32 % 2, rsv3 := b0 / 16 % 2, mask := key.isSome, maskingKey := key }
  match validateFrame v p.compression f len with
  | .error x => .error x
  | .ok () =>
    let p := if f.isText then { p with isText := true, isCompressed := f.rsv1 ≠ 0 } else p
    if len ≠ 0 then
      let textual := f.isText ∨ (f.isContinuation ∧ p.isText)
      let noValidate := if v.perMsgValidate then p.compression ∧ p.isCompressed else p.compression
      .ok ({ p with cont := .payload f, remPred := len - 1, utf8 := textual ∧ ¬ noValidate, buf := [] }, none)
    else frameDone v p f

def gotLength (v : Variant) (p : PState) (b0 : Nat) (maskBit : Bool) (len : Nat) :
    Except Exn (PState × Option Out) :=
  if len > 0x7fffffffffffffff then .error (.protocol "payload is too large")
  else if maskBit then .ok ({ p with cont := .maskKey b0 len, remPred := 3, utf8 := false, buf := [] }, none)
  else gotMask v p b0 len none

/-- `self._gen.send(bytes)`: resume `parse()` with the bytes it was waiting for -/
def resume (v : Variant) (p0 : PState) (bytes : Bytes) : Except Exn (PState × Option Out) :=
  -- the awaitable that was pending is consumed: its bookkeeping fields are dead from here on
  let p : PState := { p0 with remPred := 0, utf8 := false, buf := [] }
  match p.cont with
  | .header => .ok ({ p with cont := .hdr2, remPred := 1, utf8 := false, buf := [] }, some (.header bytes))
  | .hdr2 =>
    let b0 := bytes.getD 0 0
    let b1 := bytes.getD 1 0
    let maskBit := b1 ≥ 128
    let len7 := b1 % 128
    if len7 = 126 then .ok ({ p with cont := .len16 b0 maskBit, remPred := 1, utf8 := false, buf := [] }, none)
    else if len7 = 127 then .ok ({ p with cont := .len64 b0 maskBit, remPred := 7, utf8 := false, buf := [] }, none)
    else gotLength v p b0 maskBit len7
  | .len16 b0 m => gotLength v p b0 m (beVal bytes)
  | .len64 b0 m => gotLength v p b0 m (beVal bytes)
  | .maskKey b0 len => gotMask v p b0 len (some bytes)
  | .payload f => frameDone v p { f with payload := bytes }

/-- one iteration of `Parser.feed`'s loop while awaiting `_ReadBytes`: `chunk` is the bite
    `data[pos:pos+remaining]` (non-empty, at most `remaining` long) -/
def biteBytes (v : Variant) (p : PState) (chunk : Bytes) : Except Exn (PState × Option Out) :=
  let dfaR : Except Exn Nat :=
    if p.utf8 then
      match Utf8.validate p.dfa chunk with
      | none => .error (.parse "invalid utf8")
      | some d => .ok d
    else .ok p.dfa
  match dfaR with
  | .error x => .error x
  | .ok d =>
    let buf := p.buf ++ chunk
    if chunk.length < p.remPred + 1 then
      .ok ({ p with remPred := p.remPred - chunk.length, buf := buf, dfa := d }, none)
    else resume v { p with dfa := d } buf

/-! ### stream / message / websocket layers -/

def isInvalidCode (c : Nat) : Bool := Gen.invalidCodeRanges.any (fun r => r.1 ≤ c && c ≤ r.2)

inductive Msg
  | binary (d : Bytes) | text (cps : List Nat) | close (code : Option Nat) (reason : List Nat)
  | ping (d : Bytes) | pong (d : Bytes) | unknown
  deriving Repr, Inhabited

/-- `Close.from_payload` -/
def closeFromPayload (payload : Bytes) : Except Exn Msg :=
  if payload.length = 1 then .error (.protocol "invalid close frame payload")
  else if payload.length ≥ 2 then
    let code := beVal (payload.take 2)
    let rb := payload.drop 2
    match Utf8.validate 0 rb with
    | none => .error (.critical "close frame contains invalid utf-8")
    | some _ =>
      match Utf8.decode rb with
      | none => .error (.critical "invalid utf-8 in close reason")
      | some cps => .ok (.close (some code) cps)
  else .ok (.close none [])

/-- `Deflate.decompress(frames)` through the streaming inflater of the whole history -/
def inflateMessage (joined : Bytes) : M Bytes := fun s =>
  let wbits := (s.compression.map (·.decompressWbits)).getD 15
  let hist := s.inflHist ++ joined ++ [0, 0, 0xff, 0xff]
  match s.cfg.inflate wbits hist with
  | none => .err (.critical "unable to decompress payload") s
  | some out =>
    if (s.compression.map (·.resetDecompress)).getD false then
      .ok (out.drop s.inflOut) { s with inflHist := [], inflOut := 0 }
    else .ok (out.drop s.inflOut) { s with inflHist := hist, inflOut := out.length }

/-- the message for an opcode and a complete (joined, inflated) payload -/
def msgOfPayload (op : Nat) (payload : Bytes) : Except Exn Msg :=
  if op = Gen.opBinary then .ok (.binary payload)
  else if op = Gen.opText then
    match Utf8.decode payload with
    | none => .error (.critical "payload contains invalid utf-8")
    | some cps => .ok (.text cps)
  else if op = Gen.opClose then closeFromPayload payload
  else if op = Gen.opPing then .ok (.ping payload)
  else if op = Gen.opPong then .ok (.pong payload)
  else .ok .unknown

/-- `Message.build(frames, decompress)` -/
def buildMessage (frames : List Frame) : M Msg :=
  match frames with
  | [] => throwE (.other "error")
  | first :: _ => do
    let joined := (frames.map (·.payload)).flatten
    let s ← getS
    let payload ← (if first.rsv1 ≠ 0 ∧ s.decompress then inflateMessage joined else pure joined)
    liftE (msgOfPayload first.opcode payload)

/-- `if message.code in Status.invalid_codes: raise ProtocolError` -/
def checkCloseCode (code : Option Nat) : M Unit :=
  match code with
  | some c => if isInvalidCode c then throwE (.protocol s!"reserved close code ({c})") else pure ()
  | none => pure ()

/-- an exception from `close()` that is not a WebSocketError propagates as an ordinary exception -/
def raiseIfArgError (r : ActRes) : M Unit :=
  if r = .valueError ∨ r = .structError ∨ r = .typeError then throwE (.other "error") else pure ()

/-- `WebSocket._on_close(message)` -/
def onClose (code : Option Nat) (reason : List Nat) : M Unit := do
  checkCloseCode code
  let s ← getS
  if s.closed then pure ()
  else if s.closing then do
    feedYield true (.closed code reason)
    modS fun s => { s with closing := false, closed := true }
  else do
    feedYield true (.closing code reason)
    let r ← wsClose code (.str reason)
    raiseIfArgError r
    modS fun s => { s with closing := true }

/-- dispatch of one message in `WebSocket.feed` -/
def onMessage (m : Msg) : M Unit :=
  match m with
  | .close c r => onClose c r
  | .ping d => feedYield true (.ping d)
  | .pong d => feedYield true (.pong d)
  | .binary d => feedYield true (.binary d)
  | .text t => feedYield true (.text t)
  | .unknown => pure ()

/-- `if self.is_closed: break` -/
def notClosed : M Bool := fun s => .ok (!s.closed) s

/-- a data frame in `WebsocketStream.feed` -/
def onDataFrame (f : Frame) : M Unit := do
  let s ← getS
  if f.isContinuation ∧ s.frames = [] then
    throwE (.protocol "continuation frame has nothing to continue")
  else if ¬ f.isContinuation ∧ s.frames ≠ [] then
    throwE (.protocol "continuation frame expected")
  else do
    modS fun s => { s with frames := s.frames ++ [f] }
    if f.fin ≠ 0 then do
      let s ← getS
      let m ← buildMessage s.frames
      onMessage m
      modS fun s => { s with frames := [] }
    else pure ()

/-- one frame in `WebsocketStream.feed`: control frames bypass the fragment list -/
def onFrame (f : Frame) : M Unit :=
  if f.isControl then do
    let m ← buildMessage [f]
    onMessage m
  else onDataFrame f

/-- one parser output through stream + websocket; result: keep iterating? -/
def onOut (o : Out) : M Bool :=
  match o with
  | .header data => do
    let s ← getS
    match Http.onResponse s.cfg.v.strictAccept s.cfg.challenge (Http.parseResponse data) with
    | .error reason => do
      modS fun s => { s with parsedResponse := true }
      onDisconnect
      feedYield true (.rejected reason)
      pure false
    | .ok acc => do
      modS fun s => { s with
        compression := acc.deflate
        decompress := acc.deflate.isSome
        p := if acc.deflate.isSome then { s.p with compression := true } else s.p }
      feedYield true (.ready acc.protocol acc.deflate.isSome)
      modS fun s => { s with parsedResponse := true }
      notClosed
  | .frame f => do
    onFrame f
    notClosed

/-- the parser after an exception left `parse()`: the generator is finished; its read
    bookkeeping is dead (normalised so that the state does not depend on where the chunk was cut) -/
def deadParser (p : PState) : PState := { p with remPred := 0, utf8 := false, buf := [], dfa := 1 }

/-- the `while pos < len(data)` loop of `Parser.feed` (frames phase), with the whole lazy
    pipeline run after each bite.  Result `true`: the data was consumed; `false`: the consumer
    stopped iterating (`break` in `WebSocket.feed`: closed or rejected) and the rest is dropped. -/
def feedLoop (data : Bytes) : M Bool := fun s =>
  if h : data = [] then .ok true s
  else
    let n := s.p.remPred + 1
    match biteBytes s.cfg.v s.p (data.take n) with
    | .error x => .err x { s with p := deadParser s.p }
    | .ok (p', out) =>
      let s1 := { s with p := p' }
      match out with
      | none => feedLoop (data.drop n) s1
      | some o =>
        match onOut o s1 with
        | .err x s2 => .err x s2
        | .ok true s2 => feedLoop (data.drop n) s2
        | .ok false s2 => .ok false s2
termination_by data.length
decreasing_by
  all_goals
    simp only [List.length_drop]
    have : data.length ≠ 0 := by
      intro hl; exact h (List.eq_nil_of_length_eq_zero hl)
    omega

/-- first index at which `sep` occurs in `bs` -/
def findSep (sep : Bytes) : Bytes → Option Nat
  | [] => if sep = [] then some 0 else none
  | b :: r =>
    if sep.isPrefixOf (b :: r) then some 0
    else (findSep sep r).map (· + 1)

/-- `_ReadUntil.check_length(pos)` with the generated `max_bytes` -/
def headerTooLong (n : Nat) : Bool := !Gen.headerMaxIsNone && decide (n > Gen.headerMax)

/-- the header block is complete: hand the Response to the consumer, then go on with the
    rest of the buffer (`data = _buffer[sep_index:]; pos = 0`) -/
def afterHeader (rest : Bytes) (out : Option Out) : M Unit :=
  match out with
  | some o => do
    let go ← onOut o
    if go then do
      let _ ← feedLoop rest
      pure ()
    else pure ()
  | none => do
    let _ ← feedLoop rest
    pure ()

/-- `Parser.feed` while awaiting `_ReadUntil(b'\r\n\r\n', max_bytes)`.  When an exception leaves
    `parse()` the parser is finished (`deadParser`, as in `feedLoop`). -/
def feedHeader (data : Bytes) : M Unit := fun s =>
  let buf := s.p.buf ++ data
  match findSep Gen.headerSep buf with
  | none =>
    if headerTooLong buf.length then .err (.parse "expected separator") { s with p := deadParser s.p }
    else .ok () { s with p := { s.p with buf := buf } }
  | some i =>
    let e := i + Gen.headerSep.length
    if headerTooLong e then .err (.parse "expected separator") { s with p := deadParser s.p }
    else
      match resume s.cfg.v s.p (buf.take e) with
      | .error x => .err x { s with p := deadParser s.p }
      | .ok (p', out) => afterHeader (buf.drop e) out { s with p := p' }

/-- `stream.feed(data)` driven to exhaustion inside `WebSocket.feed`'s `try` body -/
def feedBody (data : Bytes) : M Unit := fun s =>
  if s.p.cont = .header then feedHeader data s
  else
    match feedLoop data s with
    | .ok _ s' => .ok () s'
    | .err x s' => .err x s'

/-- the `except` clauses of `WebSocket.feed` -/
def feedHandler (x : Exn) : M Unit :=
  match x with
  | .parse msg => do       -- stream: ParseError ⇒ CriticalProtocolError(text)
    feedYield false (.protocolError msg true)
    throwE (.forceDisconnect "forced")
  | .critical msg => do
    feedYield false (.protocolError msg true)
    throwE (.forceDisconnect "forced")
  | .protocol msg => do
    feedYield false (.protocolError msg false)
    let r ← wsClose (some Gen.statusProtocolError) (.str (Http.ofString msg))
    raiseIfArgError r
    throwE (.forceDisconnect "forced")
  | y => throwE y

/-- exceptions raised in `run()`'s frame at a `yield` of `feed` leave `feed` untouched -/
def unwrapOuter (x : Exn) : M Unit :=
  match x with
  | .outer y => throwE y
  | y => throwE y

/-- `WebSocket.feed(data)` -/
def wsFeed (data : Bytes) : M Unit := fun s =>
  if s.closed then .ok () s
  else tryC (tryC (feedBody data) feedHandler) unwrapOuter s

/-! ### session.run -/

/-- `for event in _regular(): yield event` at the top of a loop cycle (outside `feed`) -/
def regularTop : M Unit := regular

/-- `data = self._recv(max_bytes)` was empty: connection lost unless a closing handshake is under way -/
def onEof : M Bool := fun s =>
  if ¬ s.closing ∧ ¬ s.closed then .err (.socketFail "connection-lost") s else .ok false s

def recvStep (o : RecvOutcome) : M Bool := fun s =>   -- result: keep looping?
  if ¬ s.sockOpen then onEof s          -- `_recv` returns b'' when the socket is gone
  else
    match o with
    | .sockErr => .err (.socketFail "recv-fail") s
    | .otherErr => .err (.other "error") s
    | .eof => onEof s
    | .data bs =>
      if bs = [] then onEof s
      else
        match wsFeed bs s with
        | .ok _ s' => .ok true s'
        | .err x s' => .err x s'

/-- `selector.wait` returned after `dt` ticks of the virtual clock -/
def tick (s : Sys) (dt : Nat) : Sys :=
  { s with now := s.now + dt, trace := if dt ≠ 0 then .tick (s.now + dt) :: s.trace else s.trace }

/-- the `while not websocket.is_closed` loop; consumes the environment script -/
def loop : List EnvStep → M Unit
  | [] => fun s => if s.closed then .ok () s else .err .scriptEnd s
  | step :: rest => fun s =>
    if s.closed then .ok () s
    else
      match step with
      | .selErr => .err (.other "error") s
      | .wait dt readable =>
        match regularTop (tick s dt) with
        | .err x s2 => .err x s2
        | .ok _ s2 =>
          match readable with
          | none => loop rest s2
          | some o =>
            match recvStep o s2 with
            | .err x s3 => .err x s3
            | .ok true s3 => loop rest s3
            | .ok false s3 => .ok () s3

def selClose : M Unit := fun s =>
  if s.selOpen then .ok () { s with selOpen := false, trace := .selClose :: s.trace } else .ok () s

/-- the `except` clauses and the `else` clause of `run()`'s `try` -/
def onLoopEnd (r : Option Exn) : M Unit :=
  match r with
  | none => do
    -- `else:` the websocket ended the loop: graceful exit
    closeSocket
    yieldEv (.disconnected "closed" true)
  | some (.forceDisconnect k) => do closeSocket; yieldEv (.disconnected k false)
  | some (.socketFail k) => do closeSocket; yieldEv (.disconnected k false)
  | some (.other k) => do closeSocket; yieldEv (.disconnected k false)
  | some (.protocol _) => do closeSocket; yieldEv (.disconnected "error" false)
  | some (.critical _) => do closeSocket; yieldEv (.disconnected "error" false)
  | some (.parse _) => do closeSocket; yieldEv (.disconnected "error" false)
  | some y => throwE y          -- GeneratorExit / end of script: not an `Exception`

def runBody (env : List EnvStep) : M Unit := do
  let r : Option Exn ← tryC (do loop env; pure none) (fun x => pure (some x))
  onLoopEnd r

/-- `finally: selector.close()` (+ the repaired socket cleanup) when an exception passes through -/
def runFinally (x : Exn) : M Unit := do
  let s ← getS
  (if s.cfg.v.cleanup then closeSocket else pure ())
  selClose
  throwE x

/-- the body of `run()` from the `try:` on, with its `except` clauses, `else` and `finally` -/
def runLoop : M Unit := do
  let s ← getS
  tryC (do runBody s.env; selClose) runFinally

/-- `yield events.Connected(url, proxy)`; in the repaired code the `try` starts before it -/
def yieldConnected (proxy : Bool) : M Unit := do
  let s ← getS
  if s.cfg.v.cleanup then
    tryC (yieldEv (.connected proxy)) (fun x => do closeSocket; throwE x)
  else yieldEv (.connected proxy)

/-- `run()` once `_connect()` has returned a socket -/
def afterConnect (proxy : Bool) : M Unit := do
  modS fun s => { s with sockOpen := true }
  let s ← getS
  let r ← write s.cfg.request
  if wsError r then do
    closeSocket
    yieldEv (.connectFail "request-failed")
  else do
    yieldConnected proxy
    modS fun s => { s with selOpen := true }
    runLoop

/-- `run()`'s `try` statement when `selector = self._selector_cls(sock)` raises: the loop is never
    entered; the exception is an ordinary `Exception` raised inside the `try`, so the
    `except Exception` clause runs (`onLoopEnd (some (.other "error"))`: close the socket, yield
    `Disconnected('error; …')`), then `finally` — where `selector is None`, i.e. `selClose` finds no
    selector to close.  Abandonment at that `Disconnected` passes through `runFinally` like any other.
    (The pinned commit created the selector *outside* the `try`, where the exception escaped the
    iterator; the `cleanup` flag does not reproduce that: this case follows the repaired code.) -/
def runLoopNoSel : M Unit :=
  tryC (do onLoopEnd (some (.other "error")); selClose) runFinally

/-- `run()` once `_connect()` has returned a socket for which no selector can be constructed:
    identical to `afterConnect` up to and including the `Connected` event -/
def afterConnectNoSel (proxy : Bool) : M Unit := do
  modS fun s => { s with sockOpen := true }
  let s ← getS
  let r ← write s.cfg.request
  if wsError r then do
    closeSocket
    yieldEv (.connectFail "request-failed")
  else do
    yieldConnected proxy
    modS fun s => { s with selOpen := false }      -- `selector` is still `None`
    runLoopNoSel

def run : M Unit := do
  yieldEv .connecting
  let s ← getS
  match s.cfg.connect with
  | .socketFail => yieldEv (.connectFail "connect-failed")
  | .otherFail => yieldEv (.connectFail "connect-failed")
  | .ok proxy => afterConnect proxy
  | .selFail proxy => afterConnectNoSel proxy

/-- run a whole connection; the result is the final system state (trace newest first) -/
def runAll (cfg : Cfg) (react : React) (env : List EnvStep) : Sys :=
  let s0 : Sys := { cfg := cfg, react := react, env := env }
  match run s0 with
  | .ok _ s => s
  | .err .genExit s =>
    -- generator finalised; `with ws:` additionally calls `session.close()`
    if s.abandonedWith then
      match closeSocket s with
      | .ok _ s' => s'
      | .err _ s' => s'
    else s
  | .err (.outer .genExit) s =>
    if s.abandonedWith then
      match closeSocket s with
      | .ok _ s' => s'
      | .err _ s' => s'
    else s
  | .err .scriptEnd s => { s with trace := .incomplete :: s.trace }
  | .err _ s => { s with trace := .incomplete :: s.trace }

end Lomond.Core
