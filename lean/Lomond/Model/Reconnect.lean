/-
  One `WebSocket` object over its whole life (C17): every `connect()` creates a new `State` object and
  makes it `self.state`; generators of EARLIER connections may still exist (the application broke out
  of the loop and kept the generator, a traceback keeps its frame alive, the interpreter does not count
  references) and are finalised later.  Finalisation of a generator suspended inside `WebSocket.feed`
  runs feed's `except GeneratorExit` handler, which calls `on_disconnect`.  Which State object that
  call acts on is the whole question: the one the generator captured when it started (`captured`), or
  whatever `self.state` is by then (`current`, the code before the repair of finding D10).
  `Generated/Facts.lean` says which of the two the source text does.
-/
import Lomond.Generated.Facts

namespace Lomond.Reconnect

/-- the part of `WebSocket.State` (and of its session) that `on_disconnect` touches -/
structure CState where
  closed : Bool := false
  closing : Bool := false
  sessionClosed : Bool := false
deriving DecidableEq, Repr

/-- the State objects created so far, oldest first; the last one is `self.state` -/
structure Obj where
  states : List CState := []
deriving DecidableEq, Repr

inductive Via | captured | current
deriving DecidableEq, Repr

/-- `on_disconnect` on one State object: `session.close()`, `closed = True`, `closing = False` -/
def disconnect (_ : CState) : CState := { closed := true, closing := false, sessionClosed := true }

def Obj.cur (o : Obj) : Nat := o.states.length - 1

/-- `connect()`: `reset()` assigns a new State -/
def Obj.connect (o : Obj) : Obj := { states := o.states ++ [{}] }

/-- finalisation of the generator of connection `i` while it is suspended inside `feed` -/
def Obj.lateExit (via : Via) (o : Obj) (i : Nat) : Obj :=
  let j := match via with
    | .captured => i
    | .current => o.cur
  { states := o.states.modify j disconnect }

/-- what the connection that owns `self.state` does to its own state -/
inductive Own
  | close        -- `close()`: closing := true
  | disconnect   -- its own `on_disconnect()`
deriving DecidableEq, Repr

def Own.apply : Own → CState → CState
  | .close, c => if c.closed then c else { c with closing := true }     -- `close()` does nothing once closed
  | .disconnect, c => Reconnect.disconnect c

def Obj.own (o : Obj) (a : Own) : Obj := { states := o.states.modify o.cur a.apply }

inductive Op
  | connect
  | own (a : Own)
  | exit (i : Nat)      -- late finalisation of connection `i`
deriving DecidableEq, Repr

def Obj.step (via : Via) (o : Obj) : Op → Obj
  | .connect => o.connect
  | .own a => o.own a
  | .exit i => o.lateExit via i

def Obj.run (via : Via) (o : Obj) (ops : List Op) : Obj := ops.foldl (Obj.step via) o

/-- the state of the connection that owns `self.state` -/
def Obj.view (o : Obj) : Option CState := o.states[o.cur]?

/-- the same operations as seen by a freshly constructed object: only the current connection's own actions -/
def freshView (ops : List Op) : CState :=
  ops.foldl (fun c op => match op with | .own a => a.apply c | _ => c) {}

/-- every late finalisation in `ops` concerns a connection older than the one current at that moment
    (`n` = number of State objects before `ops`; no `connect` inside `ops`) -/
def OldExits (n : Nat) (ops : List Op) : Prop :=
  ∀ op ∈ ops, match op with
    | .exit i => i + 1 < n
    | .connect => False
    | .own _ => True

/-- How the finalisation-time code of the source finds the State object it acts on: every call made from an
    `except GeneratorExit` handler / `finally` block of a generator method of `WebSocket` is handed the State the
    generator captured at its start, and `on_disconnect` acts on that argument only. -/
def codeVia : Via :=
  if Gen.exitStateReads.all (fun r => r.2.2 == "captured") && Gen.onDisconnectOnParam then .captured else .current

/-- driver: `reconnect c c x0 oc ...` prints the current connection's flags after every operation -/
def showView (o : Obj) : String :=
  match o.view with
  | none => "-"
  | some c => (if c.closed then "1" else "0") ++ (if c.closing then "1" else "0") ++ (if c.sessionClosed then "1" else "0")

def parseOp (t : String) : Option Op :=
  if t = "c" then some .connect
  else if t = "oc" then some (.own .close)
  else if t = "od" then some (.own .disconnect)
  else if t.startsWith "x" then (t.drop 1).toString.toNat?.map .exit
  else none

def runDriver (toks : List String) : String :=
  let rec go (o : Obj) : List String → List String
    | [] => []
    | t :: ts =>
      match parseOp t with
      | none => ["bad-op"]
      | some op => let o' := o.step codeVia op; (t ++ ":" ++ showView o') :: go o' ts
  " ".intercalate (go {} toks)

end Lomond.Reconnect
