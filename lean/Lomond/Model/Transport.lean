/-
  C18 — transport + selector + receive loop on a virtual clock.

  Mirrors
    * `lomond/selectors.py  SelectorBase.wait`   (the `pending()` short-cut, then `wait_readable`)
    * `lomond/session.py    WebsocketSession._recv` (`recv_into(self._buffer, count)`)
    * the receive part of `WebsocketSession.run`'s `while` loop
        readable, max_bytes = selector.wait(self.BUFFER_SIZE, poll)
        if readable:
            data = self._recv(max_bytes)
            if data:  feed(data)  else:  connection lost / break
  against a *modelled* transport (this is the part that is not lomond's code: the OS and TLS):
    * plain TCP:   `kernel` = bytes that arrived and were not read yet; `poll(2)` is level
                   triggered (readable iff kernel ≠ [] or the peer's FIN arrived);
                   `recv_into(buf, n)` returns `min n avail` bytes;
    * TLS-like:    a queue of undecrypted records (they sit in the kernel buffer, so the fd is
                   readable iff the queue is non-empty or FIN arrived) and `pending`, the decrypted
                   unread rest of the current record; `recv_into(buf, n)` decrypts ONE record
                   when nothing is pending and returns up to `n` bytes of it; `pending()` is the
                   number of decrypted unread bytes; the count is clamped to `len(buf)`
                   (as `_ssl.c` does).
  The environment is a list of timestamped arrivals (absolute virtual time in ticks, payload)
  and an optional time at which the peer closes.  `wait_readable(timeout)` returns at once when
  the fd is readable, otherwise advances the clock to the next arrival, or by `timeout`.

  The payload bytes are opaque to everything here.  The parser behind `feed` is the core
  model's business (C01/C02); here `feed` is the log of `(virtual time, chunk)`.
  Assumption made explicit: the websocket neither closes nor fails before the peer's EOF
  (the loop condition `not websocket.is_closed` stays true), which is what the harness drives.
-/
import Lomond.Model.Basic
import Lomond.Generated.Tables

namespace Lomond.Transport
open Lomond

/-- `WebsocketSession.BUFFER_SIZE` (regenerated from the source). -/
abbrev bufferSize : Nat := Gen.bufferSize

/-- the socket object the session holds -/
inductive Sock where
  | plain (kernel : Bytes)
  | tls (records : List Bytes) (pending : Bytes)
  deriving Repr, DecidableEq

namespace Sock

/-- bytes that have arrived at the OS and were not read by user space yet -/
def kernel : Sock → Bytes
  | plain k => k
  | tls rs _ => rs.flatten

/-- bytes decrypted by the TLS layer and not handed to the caller yet -/
def pendingBytes : Sock → Bytes
  | plain _ => []
  | tls _ p => p

/-- everything that arrived and was not handed to `recv_into`'s caller yet, in stream order -/
def buffered : Sock → Bytes
  | plain k => k
  | tls rs p => p ++ rs.flatten

/-- `sock.pending()` when the socket has that method (`hasattr(sock, 'pending')`) -/
def pending? : Sock → Option Nat
  | plain _ => none
  | tls _ p => some p.length

/-- level-triggered readiness of the file descriptor (`hup`: the peer's FIN has arrived) -/
def fdReadable (hup : Bool) : Sock → Bool
  | plain k => !k.isEmpty || hup
  | tls rs _ => !rs.isEmpty || hup

/-- a segment / record arrives (an empty payload is no traffic at all) -/
def push (p : Bytes) : Sock → Sock
  | plain k => plain (k ++ p)
  | tls rs pe => if p.isEmpty then tls rs pe else tls (rs ++ [p]) pe

/-- `sock.recv_into(buffer, count)` with `len(buffer) = BUFFER_SIZE`: bytes returned, new socket -/
def recv (count : Nat) : Sock → Bytes × Sock
  | plain k => (k.take (min count bufferSize), plain (k.drop (min count bufferSize)))
  | tls [] [] => ([], tls [] [])
  | tls (r :: rs) [] => (r.take (min count bufferSize), tls rs (r.drop (min count bufferSize)))
  | tls rs (b :: p) => ((b :: p).take (min count bufferSize), tls rs ((b :: p).drop (min count bufferSize)))

end Sock

/-- `true` = `SelectorBase.wait` as shipped (consults `pending()` before blocking);
    `false` = the variant without the short-cut (a plausible regression; used for the
    `…_fails` witness and for mutation self-tests). -/
structure Cfg where
  poll : Nat
  shortcut : Bool := true
  deriving Repr

/-- what the simulated transport observes (the correspondence check compares these) -/
inductive Tok where
  /-- a `pending()` call and its answer -/
  | pend (n : Nat)
  /-- a `wait_readable` call: clock before / after, answer, and the number of bytes sitting in
      the kernel buffer / in the TLS layer when the call was made -/
  | wait (t0 t1 : Nat) (readable : Bool) (kernel pending : Nat)
  /-- a `recv_into` call: clock, count asked for, bytes returned -/
  | recv (t count n : Nat)
  deriving Repr, DecidableEq

structure St where
  now : Nat
  sock : Sock
  /-- arrivals that have not happened yet: (absolute time, payload), in network order -/
  future : List (Nat × Bytes)
  /-- when the peer closes its side (after its last byte) -/
  eofAt : Option Nat
  hup : Bool := false
  /-- chunks handed to `websocket.feed`, with the virtual time of the call; oldest first -/
  log : List (Nat × Bytes) := []
  trace : List Tok := []
  /-- `recv` returned no data: the loop left through `connection lost` / `break` -/
  stopped : Bool := false
  deriving Repr

def pushAll (sk : Sock) : List (Nat × Bytes) → Sock
  | [] => sk
  | a :: as => pushAll (sk.push a.2) as

def eofDue (eofAt : Option Nat) (now : Nat) : Bool :=
  match eofAt with
  | some t => decide (t ≤ now)
  | none => false

/-- everything whose arrival time has come is in the kernel buffer -/
def deliverDue (s : St) : St :=
  let due := s.future.takeWhile (fun a => decide (a.1 ≤ s.now))
  let rest := s.future.dropWhile (fun a => decide (a.1 ≤ s.now))
  { s with sock := pushAll s.sock due, future := rest,
           hup := s.hup || (rest.isEmpty && eofDue s.eofAt s.now) }

/-- the next instant at which the environment does something -/
def nextTime (s : St) : Option Nat :=
  match s.future with
  | a :: _ => some a.1
  | [] => if s.hup then none else s.eofAt

/-- the blocking `poll(2)` itself: its answer and the world when it returns -/
def block (timeout : Nat) (s : St) : Bool × St :=
  if s.sock.fdReadable s.hup then (true, s)
  else
    match nextTime s with
    | some t =>
      if t ≤ s.now + timeout then
        let s' := deliverDue { s with now := max s.now t }
        (s'.sock.fdReadable s'.hup, s')
      else (false, { s with now := s.now + timeout })
    | none => (false, { s with now := s.now + timeout })

/-- `wait_readable(timeout)` on the simulated transport, logging one token -/
def waitReadable (timeout : Nat) (s : St) : Bool × St :=
  let r := block timeout s
  (r.1, { r.2 with trace := r.2.trace ++
            [Tok.wait s.now r.2.now r.1 s.sock.kernel.length s.sock.pendingBytes.length] })

/-- `SelectorBase.wait(max_bytes, timeout)`:
    ```
    if hasattr(self._socket, 'pending') and self._socket.pending():
        return True, self._socket.pending()
    readable = self.wait_readable(timeout=timeout)
    return readable, max_bytes
    ``` -/
def selWait (cfg : Cfg) (maxBytes : Nat) (s : St) : Bool × Nat × St :=
  if !cfg.shortcut then
    let r := waitReadable cfg.poll s
    (r.1, maxBytes, r.2)
  else
    match s.sock.pending? with
    | none =>
      let r := waitReadable cfg.poll s
      (r.1, maxBytes, r.2)
    | some n =>
      if n != 0 then
        (true, n, { s with trace := s.trace ++ [Tok.pend n, Tok.pend n] })
      else
        let r := waitReadable cfg.poll { s with trace := s.trace ++ [Tok.pend n] }
        (r.1, maxBytes, r.2)

/-- one iteration of the `while` loop of `WebsocketSession.run` (receive part), started in a
    world in which everything due has been delivered -/
def cycleBody (cfg : Cfg) (s : St) : St :=
  let w := selWait cfg bufferSize s
  let s1 := w.2.2
  if w.1 then
    let r := s1.sock.recv w.2.1
    let s2 := { s1 with sock := r.2, trace := s1.trace ++ [Tok.recv s1.now w.2.1 r.1.length] }
    if r.1.isEmpty then { s2 with stopped := true }
    else { s2 with log := s2.log ++ [(s2.now, r.1)] }
  else s1

/-- one iteration of the loop: whatever has arrived by now is in the kernel buffer -/
def cycle (cfg : Cfg) (s0 : St) : St := cycleBody cfg (deliverDue s0)

/-- the loop, `fuel` iterations at most (it spins forever when the peer never closes) -/
def run (cfg : Cfg) : Nat → St → St
  | 0, s => s
  | n + 1, s => if s.stopped then s else run cfg n (cycle cfg s)

def init (tls : Bool) (arrivals : List (Nat × Bytes)) (eofAt : Option Nat) : St :=
  { now := 0, sock := if tls then .tls [] [] else .plain [], future := arrivals, eofAt := eofAt }

/-- chunks fed after `fuel` iterations -/
def fed (cfg : Cfg) (tls : Bool) (arrivals : List (Nat × Bytes)) (eofAt : Option Nat) (fuel : Nat) : List (Nat × Bytes) :=
  (run cfg fuel (init tls arrivals eofAt)).log

end Lomond.Transport
