/-
  The link between the models of the connection phase and the core model (definitions only).

  `WebsocketSession.run()` calls `self._connect()` once, right after the application has been shown
  the `Connecting` event.  The core model (`Model/Core.lean`) sees `_connect()` as ONE value,
  `cfg.connect : ConnOutcome`.  What `_connect()` does is modelled elsewhere:

    * `_connect_sock` (name resolution + one attempt per address)            `Model/Connect.lean`
    * `_connect`'s choice of a proxy, `_connect_proxy` (CONNECT dialogue,
      blocking read loop, TLS wrap towards the target)                       `Model/Proxy.lean`

  Here the three are composed:

    * `connectOutcome i`   the `ConnOutcome` that `_connect()` (and the selector's constructor)
                           produce for the inputs `i` of those two models — which exception classes
                           are `_SocketFail` and which are caught by `except Exception` is read off
                           `session.py` (`_connect_sock`, `_connect_proxy`, `_connect`, `run`);
    * `coreCfg base i`     the core configuration of that connection;
    * `composed base i react env`   ONE ordered trace of the whole connection: the observations of the
                           core model with everything `_connect()` does to the outside world
                           (`_connect_sock` calls with their socket-module calls, the CONNECT request,
                           the reads, the TLS wrap) inserted where `run()` calls `_connect()`.
-/
import Lomond.Model.Connect
import Lomond.Model.Proxy
import Lomond.Model.Core

namespace Lomond.ConnectLink
open Lomond Lomond.Http

/-- everything the connection phase of one `run()` depends on: the inputs of `Model/Connect.lean`
    and of `Model/Proxy.lean`, and the outcome of the selector's constructor -/
structure Inputs where
  /-- the `WebSocket` object as the session sees it: target, `proxies` mapping, upgrade request -/
  ws : Proxy.Cfg
  /-- the one `_connect_sock(host, port, ssl)` call of the connection (to the proxy when one is
      chosen, to the target otherwise): `getaddrinfo` (`none` = it raised `socket.error`) and the
      outcome per resolved address -/
  gai : Option (List Connect.AddrOutcome)
  /-- the `k`-th `sendall` of the connection raises `socket.error` (0-based; with a proxy the CONNECT
      request is number 0 and the upgrade request number 1) -/
  writeFails : Nat → Bool
  /-- outcomes of the successive `recv(1024)` of `_connect_proxy` -/
  reads : List Proxy.ReadOutcome
  /-- `_wrap_socket(sock, websocket.host)` over the tunnel succeeds -/
  wrapOk : Bool
  /-- `self._selector_cls(sock)` succeeds -/
  selOk : Bool
  /-- code shape (finding D11): `_connect_proxy` closes the socket that had connected to the proxy when
      anything after the TCP connect fails — `build_request`, the CONNECT `sendall`, a `recv`, the reply
      parser, the TLS wrap — before the exception propagates (`true` = the repaired code; the pinned
      commit left that socket open, for the garbage collector to close).  The harness probes the real
      `_connect_proxy` and passes what it finds. -/
  pclose : Bool := true
  /-- code shape (seeded change C19-r4m2): the socket is put back into blocking mode — `sock.settimeout(None)` —
      BEFORE `_connect_proxy` has written the CONNECT request and read the proxy's answer (e.g. at the end of
      `_connect_sock`), so that the negotiation runs on a socket without a timeout.  `false` = the pinned order:
      `_connect_sock` sets `sock.settimeout(30)` before `connect()`, and `_connect` calls `sock.settimeout(None)`
      only after `_connect_proxy` / `_connect_sock` have returned (`Gen.settimeoutNoneIn`, `Gen.connectCallOrder`;
      `C19Timeout.source_has_pinned_order`).  The harness probes the real `_connect` and passes what it finds. -/
  blockBeforeTunnel : Bool := false

/-- `_connect_sock` returned a socket (it did not raise `_SocketFail`) -/
def sockOk (i : Inputs) : Bool :=
  match (Connect.connectSock i.gai).1 with
  | .sock _ => true
  | .fail => false

/-- the environment of the Proxy model: its `_connect_sock` outcome is the Connect model's result -/
def proxyEnv (i : Inputs) : Proxy.Env :=
  { connectOk := sockOk i, writeFails := i.writeFails, reads := i.reads, wrapOk := i.wrapOk }

/-- how `self._connect()` ends, as `run()` distinguishes it -/
inductive ConnectResult
  /-- `return sock, proxy_url` -/
  | sock (proxy : Option Str)
  /-- it raised `_SocketFail`: `except _SocketFail` in `run()` -/
  | socketFail
  /-- it raised anything else: `except Exception` in `run()` -/
  | otherFail
  deriving Repr, DecidableEq

/-- `self._connect()`.

    Direct connection: `_connect_sock` either returns a socket or raises `_SocketFail`
    (`_socket_fail('unable to connect…')` — `getaddrinfo` raised, or no address connected).

    Through a proxy (`_connect_proxy`): the only `_SocketFail` is the re-raised one of `_connect_sock`
    (`'unable to connect to proxy; …'`).  Everything else that can go wrong there is NOT a
    `_SocketFail` and reaches `run()`'s `except Exception`: `ValueError` from `urlparse` / `.port`,
    `AttributeError` from `build_request` (no target host), `socket.error` from `sendall`,
    `socket.error` / `socket.timeout` from `recv`, `ProxyFail` (a plain `Exception`) from the parser,
    and whatever `_wrap_socket` raises. -/
def connectResult (i : Inputs) : ConnectResult :=
  match Proxy.proxyChoice i.ws with
  | some purl =>
    match (Proxy.connectProxy i.ws (proxyEnv i) purl).2 with
    | .ok _ => .sock (some purl)
    | .error .proxyConnect => .socketFail
    | .error _ => .otherFail
  | none => if sockOk i then .sock none else .socketFail

/-- the connect outcome of the core model: `_connect()` followed, when it returned a socket, by the
    selector's constructor (`ConnOutcome.selFail` = that constructor raised) -/
def connectOutcome (i : Inputs) : Core.ConnOutcome :=
  match connectResult i with
  | .sock p => if i.selOk then .ok p.isSome else .selFail p.isSome
  | .socketFail => .socketFail
  | .otherFail => .otherFail

/-- number of `sendall`s made by `_connect()` before it returns a socket: the CONNECT request -/
def sentBefore (i : Inputs) : Nat := if (Proxy.proxyChoice i.ws).isSome then 1 else 0

/-- the core configuration of this connection: connect outcome from the models above, the upgrade
    request of the `WebSocket` object, and the write faults counted from the first `sendall` that the
    core model makes; everything else (`poll`, timers, masking keys, …) from `base` -/
def coreCfg (base : Core.Cfg) (i : Inputs) : Core.Cfg :=
  { base with
    connect := connectOutcome i
    request := i.ws.request
    writeFails := fun k => i.writeFails (k + sentBefore i) }

/-- what `_connect()` does to the outside world, in order, as items of the Proxy model's log -/
def connectLog (i : Inputs) : List Proxy.Io :=
  match Proxy.proxyChoice i.ws with
  | some purl => (Proxy.connectProxy i.ws (proxyEnv i) purl).1
  | none => [.connectTo i.ws.target.host i.ws.target.port i.ws.target.secure]

/-- one item of the composed trace -/
inductive Item
  /-- an observation of the core model -/
  | core (o : Core.Obs)
  /-- an action of `_connect()` / `_connect_proxy()` -/
  | io (x : Proxy.Io)
  /-- a call on the socket module made inside `_connect_sock` -/
  | sock (c : Connect.Call)
  deriving Repr, DecidableEq

/-- a `_connect_sock` call together with the socket-module calls it consists of -/
def expand (i : Inputs) (x : Proxy.Io) : List Item :=
  match x with
  | .connectTo _ _ _ => .io x :: (Connect.connectSock i.gai).2.map .sock
  | _ => [.io x]

/-- `except Exception: sock.close(); raise` in `_connect_proxy` (repaired shape): `_connect_sock` had been
    called (the log is not empty) and had returned the socket of address `k`, and `_connect()` then fails —
    that socket is closed before the exception leaves `_connect()`.  (On a direct connection `_connect()`
    fails only when `_connect_sock` does, which has closed every socket it had connected.) -/
def closeItems (i : Inputs) : List Item :=
  match connectResult i, (Connect.connectSock i.gai).1 with
  | .sock _, _ => []
  | _, .sock k => if i.pclose && !(connectLog i).isEmpty then [.sock (.close k)] else []
  | _, .fail => []

/-- `_connect()` as items of the composed trace -/
def phaseItems (i : Inputs) : List Item := (connectLog i).flatMap (expand i) ++ closeItems i

/-- **The composed trace** of one connection, oldest first.  `run()` is
    `yield Connecting` (the application reacts), `self._connect()`, and the rest; the core model's
    trace is cut after the first of these and the connection phase is put in between.  When the
    application abandons the iterator at `Connecting`, `_connect()` is never called. -/
def composed (base : Core.Cfg) (i : Inputs) (react : Core.React) (env : List Core.EnvStep) : List Item :=
  let cfg := coreCfg base i
  let tr := (Core.runAll cfg react env).trace.reverse
  match Core.yieldEv .connecting { cfg := cfg, react := react, env := env } with
  | .err _ _ => tr.map .core
  | .ok _ s1 =>
    (tr.take s1.trace.length).map .core ++ phaseItems i ++ (tr.drop s1.trace.length).map .core

/-! ### projections of the composed trace -/

/-- a `sendall` of the core model (`wrz`: a compressed frame, payload abstract) -/
def isCoreWrite : Core.Obs → Bool
  | .wr _ => true
  | .wrz _ _ => true
  | .wrFail _ => true
  | _ => false

/-- an item of the composed trace that is a `sendall` of the core model -/
def Item.isCoreWrite : Item → Bool
  | .core o => Lomond.ConnectLink.isCoreWrite o
  | _ => false

/-- a `sendall` anywhere in the connection -/
def Item.isWrite : Item → Bool
  | .core o => Lomond.ConnectLink.isCoreWrite o
  | .io x => match x with
    | .write _ _ _ => true
    | _ => false
  | .sock _ => false

/-- the `sendall`s of a composed trace, in order -/
def sends (l : List Item) : List Item := l.filter Item.isWrite

/-- the connection-phase actions of a composed trace, in order -/
def ioLog : List Item → List Proxy.Io
  | [] => []
  | .io x :: r => x :: ioLog r
  | _ :: r => ioLog r

/-- the core observations of a composed trace, in order -/
def coreLog : List Item → List Core.Obs
  | [] => []
  | .core o :: r => o :: coreLog r
  | _ :: r => coreLog r

/-- the socket-module calls of a composed trace, in order -/
def sockLog : List Item → List Connect.Call
  | [] => []
  | .sock c :: r => c :: sockLog r
  | _ :: r => sockLog r

/-! ### the Proxy model's log as a view of the composed trace

  `Proxy.run` is the log of `run()` up to `ConnectFail` / `Connected` in the Proxy model's own
  vocabulary: events carry the *reason* of a failure and the proxy *URL*, writes carry whether they go
  through the TLS wrapper.  The core model has coarser events (`connectFail "connect-failed"`,
  `connected (proxy : Bool)`); `view` puts the finer information back (it is a function of the
  inputs) and forgets what the Proxy model does not log. -/

/-- why `_connect()` failed, in the Proxy model's classification -/
def failKind (i : Inputs) : Proxy.FailKind :=
  match Proxy.proxyChoice i.ws with
  | some purl =>
    match (Proxy.connectProxy i.ws (proxyEnv i) purl).2 with
    | .error k => k
    | .ok _ => .connect
  | none => .connect

/-- the upgrade request goes through the TLS wrapper made over the tunnel -/
def viaTls (i : Inputs) : Bool := (Proxy.proxyChoice i.ws).isSome && i.ws.target.secure

def viewCore (i : Inputs) : Core.Obs → Option Proxy.Io
  | .ev .connecting => some (.ev .connecting)
  | .ev (.connectFail k) =>
    some (.ev (.connectFail (if k = "connect-failed" then failKind i else .requestFailed)))
  | .ev (.connected _) => some (.ev (.connected (Proxy.proxyChoice i.ws)))
  | .wr d => some (.write (viaTls i) d true)
  | .wrFail d => some (.write (viaTls i) d false)
  | _ => none

def view (i : Inputs) : Item → Option Proxy.Io
  | .core o => viewCore i o
  | .io x => some x
  | .sock _ => none

/-! ### the socket's timeout mode during the proxy negotiation: can the attempt block for ever?

  `recv(1024)` on a socket with a timeout raises `socket.timeout` when the peer stays silent that long; on a
  socket in blocking mode (`settimeout(None)`) it never returns.  `_connect_sock` gives every socket a timeout of
  30 s before `connect()`.  In `composed` (the pinned order) a silent read is therefore `ReadOutcome.timeout`:
  `socket.timeout` → `ConnectFail`.  `attempt` is the composed connection for BOTH code shapes: with
  `blockBeforeTunnel` the read to which the proxy never answers does not return — nothing happens after it, no
  event is ever yielded again (the harness reports `P:R:BLOCKS-FOREVER HUNG:…`). -/

/-- the timeout of the socket while `_connect_proxy` writes the CONNECT request and reads the answer: the 30 s
    that `_connect_sock` set before `connect()`, unless `settimeout(None)` has already been called -/
def negotiationTimeout (i : Inputs) : Option Nat := if i.blockBeforeTunnel then none else some 30

/-- `_connect_proxy` reaches a `recv` to which the proxy never answers (a `timeout` step of the read script, or
    its end, before the reply is complete): the Proxy model's failure kind `timeout`.  (It needs: a proxy chosen,
    a usable proxy URL, `_connect_sock` connecting, a target host, the CONNECT request written —
    `C19Timeout.silentRead_iff`.) -/
def silentRead (i : Inputs) : Bool :=
  match Proxy.proxyChoice i.ws with
  | some purl =>
    match (Proxy.connectProxy i.ws (proxyEnv i) purl).2 with
    | .error .timeout => true
    | _ => false
  | none => false

/-- a `recv` of this connection attempt never returns -/
def hangs (i : Inputs) : Bool := (negotiationTimeout i).isNone && silentRead i

/-- how one connection attempt ends -/
inductive Attempt
  /-- the event iterator comes to an end (or the application abandons it, or the environment script runs out):
      the composed trace -/
  | ended (trace : List Item)
  /-- a `recv` on a socket without a timeout, and the proxy stays silent: the call never returns.  `before` is
      everything that had happened until that call; nothing follows — neither `ConnectFail` nor `Connected` -/
  | hung (before : List Item)
  deriving Repr, DecidableEq

/-- **The composed connection with the socket's timeout mode.**  `Connecting` (the application reacts), then
    `_connect()`; when a read of `_connect_proxy` blocks for ever, that is the end: the trace is `Connecting`, the
    application's reaction, and the connection phase up to — not including — the silent read (the last item of
    the log, `read timeout` in the pinned order).  Otherwise `composed`. -/
def attempt (base : Core.Cfg) (i : Inputs) (react : Core.React) (env : List Core.EnvStep) : Attempt :=
  match Core.yieldEv .connecting { cfg := coreCfg base i, react := react, env := env } with
  | .err _ _ => .ended (composed base i react env)
  | .ok _ s1 =>
    if hangs i then .hung (s1.trace.reverse.map .core ++ (connectLog i).dropLast.flatMap (expand i))
    else .ended (composed base i react env)

end Lomond.ConnectLink
