/-
  Model of lomond/response.py (`Response`), lomond/extension.py (`parse_extension`),
  `Deflate.from_options`/`get_wbits` (compression.py) and `WebSocket.on_response` /
  `process_extensions` / `build_request` (websocket.py), `proxy.build_request`.

  Strings are `List Nat` (code points).  Header lines are decoded
  `ascii`/`replace`: every byte ≥ 0x80 becomes U+FFFD.
-/
import Lomond.Model.Basic
import Lomond.Generated.Tables

namespace Lomond.Http

abbrev Str := List Nat

def ofString (s : String) : Str := s.toList.map (·.toNat)

/-- `bytes.decode('ascii', 'replace')` -/
def asciiReplace (bs : Bytes) : Str := bs.map (fun b => if b < 128 then b else 0xFFFD)

/-- `str.isspace()` restricted to what can occur after `asciiReplace` -/
def isStrSpace (c : Nat) : Bool := (9 ≤ c && c ≤ 13) || (28 ≤ c && c ≤ 32)
/-- ASCII whitespace of `bytes.split(None)` / `Py_ISSPACE` -/
def isBytesSpace (c : Nat) : Bool := (9 ≤ c && c ≤ 13) || c == 32

def lstripBy (p : Nat → Bool) (s : Str) : Str := s.dropWhile p
def rstripBy (p : Nat → Bool) (s : Str) : Str := (s.reverse.dropWhile p).reverse
def stripBy (p : Nat → Bool) (s : Str) : Str := rstripBy p (lstripBy p s)

def strip (s : Str) : Str := stripBy isStrSpace s
def lstrip (s : Str) : Str := lstripBy isStrSpace s
def lower (s : Str) : Str := s.map (fun c => if 65 ≤ c ∧ c ≤ 90 then c + 32 else c)

/-- `s.partition(sep)` for a one-character separator: (before, found?, after) -/
def partition (sep : Nat) : Str → Str × Bool × Str
  | [] => ([], false, [])
  | c :: r =>
    if c = sep then ([], true, r)
    else let (a, f, b) := partition sep r; (c :: a, f, b)

/-- `s.split(sep)` for a one-character separator (never returns the empty list) -/
def splitOn1 (sep : Nat) : Str → List Str
  | [] => [[]]
  | c :: r =>
    match splitOn1 sep r with
    | [] => [[]]          -- unreachable
    | h :: t => if c = sep then [] :: h :: t else (c :: h) :: t

/-- `data.split(b'\r\n')` -/
def splitCRLF : Bytes → List Bytes
  | [] => [[]]
  | [c] => [[c]]
  | 13 :: 10 :: r => [] :: splitCRLF r
  | c :: r =>
    match splitCRLF r with
    | [] => [[c]]         -- unreachable
    | h :: t => (c :: h) :: t

/-- `bs.split(None, 2)`: at most three tokens; the third keeps inner/trailing whitespace
    (bytes.split strips leading whitespace of the remainder only). -/
def splitNone2 (bs : Bytes) : List Bytes :=
  let s0 := bs.dropWhile isBytesSpace
  if s0 = [] then [] else
  let t1 := s0.takeWhile (fun c => !isBytesSpace c)
  let r1 := (s0.dropWhile (fun c => !isBytesSpace c)).dropWhile isBytesSpace
  if r1 = [] then [t1] else
  let t2 := r1.takeWhile (fun c => !isBytesSpace c)
  let r2 := (r1.dropWhile (fun c => !isBytesSpace c)).dropWhile isBytesSpace
  -- with maxsplit reached, the remainder keeps trailing whitespace
  if r2 = [] then [t1, t2] else [t1, t2, r2]

def isDigit (c : Nat) : Bool := 48 ≤ c && c ≤ 57

/-- digits with single underscores between digits -/
def digitsVal : Str → Nat → Bool → Option Nat
  -- `prevDigit` : the previous character was a digit (an underscore is allowed now)
  | [], acc, prevDigit => if prevDigit then some acc else none
  | c :: r, acc, prevDigit =>
    if isDigit c then digitsVal r (acc * 10 + (c - 48)) true
    else if c = 95 ∧ prevDigit then
      match r with
      | d :: _ => if isDigit d then digitsVal r acc false else none
      | [] => none
    else none

/-- `sys.get_int_max_str_digits()` (CPython default) -/
def pyIntMaxDigits : Nat := 4300

/-- Python `int(x)` for ASCII input after the given whitespace has been stripped:
    `some (neg, magnitude)` or `none` for ValueError. -/
def pyInt (space : Nat → Bool) (s : Str) : Option (Bool × Nat) :=
  let t := stripBy space s
  -- CPython ≥ 3.11: more than `sys.get_int_max_str_digits()` (default 4300) digit characters ⇒ ValueError
  if (t.filter isDigit).length > pyIntMaxDigits then none else
  match t with
  | [] => none
  | 43 :: r => (digitsVal r 0 false).map (fun v => (false, v))
  | 45 :: r => (digitsVal r 0 false).map (fun v => (v != 0, v))
  | _ => (digitsVal t 0 false).map (fun v => (false, v))

structure Response where
  httpVer : Str
  /-- `none` = `status_code is None`; `some (neg, n)` -/
  statusCode : Option (Bool × Nat)
  status : Str
  /-- insertion-ordered association list: name ↦ list of pieces (joined and stripped on lookup) -/
  headers : List (Str × Str)
  deriving Repr, DecidableEq

def hdrAppend (hs : List (Str × Str)) (name : Str) (piece : Str) : List (Str × Str) :=
  match hs with
  | [] => [(name, piece)]
  | (n, v) :: r => if n = name then (n, v ++ piece) :: r else (n, v) :: hdrAppend r name piece

def hdrHas (hs : List (Str × Str)) (name : Str) : Bool := hs.any (fun p => p.1 = name)

/-- the loop over header lines; `cur` is the variable `header` (`none` before the first header) -/
def parseLines : List Bytes → Option Str → List (Str × Str) → List (Str × Str)
  | [], _, hs => hs
  | l :: rest, cur, hs =>
    let line := asciiReplace l
    if strip line = [] then parseLines rest cur hs
    else
      match line with
      | c :: _ =>
        if Gen.lws.contains c then
          match cur with
          | some h =>
            if h ≠ [] then parseLines rest cur (hdrAppend hs h (32 :: lstrip line))
            else parseLines rest cur hs
          | none => parseLines rest cur hs
        else
          let (name0, _, value) := partition 58 line
          let name := strip (lower name0)
          let hs1 := if hdrHas hs name then hdrAppend hs name [44] else hs
          parseLines rest (some name) (hdrAppend hs1 name value)
      | [] => parseLines rest cur hs

/-- `Response(header_data)` -/
def parseResponse (data : Bytes) : Response :=
  let lines := splitCRLF data
  let statusLine := lines.headD []
  let toks := splitNone2 statusLine
  { httpVer := asciiReplace (toks.getD 0 [])
    statusCode := pyInt isBytesSpace (let t := toks.getD 1 []; if t.all (· < 128) then t else [0])
    status := asciiReplace (toks.getD 2 [])
    headers := (parseLines lines.tail none []).map (fun p => (p.1, strip p.2)) }

def Response.get (r : Response) (name : Str) : Option Str :=
  (r.headers.find? (fun p => p.1 = lower name)).map (·.2)

/-- the comma-separated elements of a header value (`get_list`'s body) -/
def splitList (v : Str) : List Str :=
  if strip v = [] then [] else (splitOn1 44 v).map strip

def Response.getList (r : Response) (name : Str) : List Str :=
  splitList ((r.get name).getD [])

/-- `parse_extension` : (token, options as assoc list, later duplicates win on lookup) -/
def parseExtension (ext : Str) : Str × List (Str × Str) :=
  let toks := (splitOn1 59 ext).map strip
  let opts := toks.tail.map (fun tok =>
    let (k, _, v) := partition 61 tok
    (strip k, stripBy (· == 34) (strip v)))
  (toks.headD [], opts)

def optGet (opts : List (Str × Str)) (k : Str) : Option Str :=
  (opts.reverse.find? (fun p => p.1 = k)).map (·.2)

structure DeflateCfg where
  decompressWbits : Nat
  compressWbits : Nat
  resetDecompress : Bool
  resetCompress : Bool
  deriving Repr, DecidableEq, Inhabited

/-- `Deflate.get_wbits`; error = the CompressionParameterError text -/
def getWbits (opts : List (Str × Str)) (key : String) : Except Str Nat :=
  let raw := (optGet opts (ofString key)).getD (ofString "15")
  match pyInt isStrSpace raw with
  | none => .error (ofString (key ++ " is not an integer"))
  | some (neg, n) =>
    if neg ∨ n < 8 ∨ n > 15 then
      .error (ofString (key ++ "=" ++ (if neg then "-" else "") ++ toString n ++ " is invalid"))
    else .ok n

def deflateFromOptions (opts : List (Str × Str)) : Except Str DeflateCfg := do
  let d ← getWbits opts "server_max_window_bits"
  let c ← getWbits opts "client_max_window_bits"
  pure { decompressWbits := d, compressWbits := c
         resetDecompress := (optGet opts (ofString "server_no_context_takeover")).isSome
         resetCompress := (optGet opts (ofString "client_no_context_takeover")).isSome }

/-- `process_extensions`: last permessage-deflate entry wins; returns (enabled?, config) -/
def processExtensions : List Str → Option DeflateCfg → Except Str (Option DeflateCfg)
  | [], acc => .ok acc
  | e :: r, acc =>
    let (tok, opts) := parseExtension e
    if tok = ofString "permessage-deflate" then
      match deflateFromOptions opts with
      | .error m => .error m
      | .ok d => processExtensions r (some d)
    else processExtensions r acc

def showStatus : Option (Bool × Nat) → String
  | none => "None"
  | some (neg, n) => (if neg then "-" else "") ++ toString n

structure Accepted where
  protocol : Option Str
  deflate : Option DeflateCfg
  deriving Repr, DecidableEq

/-- `WebSocket.on_response`.  `challenge` is `b64encode(sha1(self.key + WS_KEY).digest()).decode('ascii')`:
    the handshake model computes it from the key of the attempt (`Handshake.acceptFor`,
    `Handshake.nthOnResponse`, `Handshake.cfgOfRequest`; SHA-1 is `Model/Sha1.lean`) and hands it in here,
    so that this file and `Core.lean` stay independent of the hash.  `strictAccept` selects an exact
    comparison instead of the case-insensitive one the code performs.  Error = HandshakeError text. -/
def onResponse (strictAccept : Bool) (challenge : Str) (r : Response) : Except Str Accepted :=
  if r.statusCode ≠ some (false, 101) then
    .error (ofString ("Websocket upgrade failed (code=" ++ showStatus r.statusCode ++ ")"))
  else
    let upgrade := lower ((r.get (ofString "upgrade")).getD (ofString "<header missing>"))
    if upgrade ≠ ofString "websocket" then
      .error (ofString "Can't upgrade to " ++ upgrade)
    else
      match r.get (ofString "sec-websocket-accept") with
      | none => .error (ofString "No Sec-WebSocket-Accept header")
      | some acc =>
        let same := if strictAccept then acc = challenge else lower acc = lower challenge
        if ¬ same then .error (ofString "Sec-WebSocket-Accept challenge failed")
        else
          match processExtensions (r.getList (ofString "sec-websocket-extensions")) none with
          | .error m => .error m
          | .ok d => .ok { protocol := r.get (ofString "sec-websocket-protocol"), deflate := d }

/-! ### requests -/

def crlf : Bytes := [13, 10]

def joinCRLF : List Bytes → Bytes
  | [] => []
  | [x] => x
  | x :: r => x ++ crlf ++ joinCRLF r

structure ReqCfg where
  resource : Bytes
  hostPort : Bytes
  key : Bytes
  agent : Bytes
  protocols : List Bytes
  customHeaders : List (Bytes × Bytes)
  compress : Bool
  deriving Repr

def joinWith (sep : Bytes) : List Bytes → Bytes
  | [] => []
  | [x] => x
  | x :: r => x ++ sep ++ joinWith sep r

/-- decimal digits of `n`, most significant first (`fuel` bounds the number of digits) -/
def decDigits : Nat → Nat → Bytes
  | 0, _ => []
  | fuel + 1, n => if n < 10 then [48 + n] else decDigits fuel (n / 10) ++ [48 + n % 10]

/-- `str(n).encode()` -/
def natBytes (n : Nat) : Bytes := decDigits (n + 1) n

/-- an ASCII literal as bytes (`ofString` reduces in the kernel, `String.toUTF8` does not) -/
def lit (s : String) : Bytes := ofString s

def deflateOffer : Bytes :=
  lit "permessage-deflate; server_max_window_bits=15; client_max_window_bits, permessage-deflate; client_max_window_bits"

/-- `WebSocket.build_request` -/
def buildRequest (c : ReqCfg) : Bytes :=
  let hdrs : List (Bytes × Bytes) :=
    c.customHeaders ++
    [ (lit "Host", c.hostPort), (lit "Upgrade", lit "websocket"),
      (lit "Connection", lit "Upgrade"), (lit "Sec-WebSocket-Key", c.key),
      (lit "Sec-WebSocket-Version", natBytes Gen.wsVersion),
      (lit "User-Agent", c.agent) ] ++
    (if c.protocols ≠ [] then [(lit "Sec-WebSocket-Protocol", joinWith (lit ", ") c.protocols)] else []) ++
    (if c.compress then [(lit "Sec-WebSocket-Extensions", deflateOffer)] else [])
  joinCRLF ([lit "GET " ++ c.resource ++ lit " HTTP/1.1"] ++
            hdrs.map (fun h => h.1 ++ lit ": " ++ h.2) ++ [crlf])

end Lomond.Http
