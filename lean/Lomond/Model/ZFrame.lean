/-
  The bytes of the send side, compressed frames included.

  The core model (`Model/Core.lean`) records a compressed data frame in its trace as the abstract
  entry `.wrz opcode plaintext`: zlib's output is not a function the model computes.  This file
  says which *bytes* such an entry stands for, with the compressor as a PARAMETER:

      `WebsocketSession.send_compressed(opcode, data, compress)`
          frame = Frame(opcode, payload=bytearray(compress(data)), rsv1=1)
          self._sendall(frame.to_bytes())
      `Deflate.compress(payload)`
          data = (compressobj.compress(payload) + compressobj.flush(Z_SYNC_FLUSH))[:-4]
          if self.reset_compress: self.reset_compressor()

  `compress` is one zlib object per connection, so its output is a function of every plaintext it
  was given before on that connection and of the present one (a compressor that is renewed after
  every message — `client_no_context_takeover` — is one that ignores the history).  `wireOf`
  renders a trace entry to what `sendall` received: a plain write is itself, a compressed write at
  a given position of the trace is `Frame.build opcode z key` with FIN=1, RSV1=1, RSV2=RSV3=0,
  MASK=1, `z` the compressor's output (sync-flush tail `00 00 ff ff` already stripped) for the
  history at that position and `key` the masking key the model draws at that position.

  Nothing here changes `Core.Obs`, the core model or the driver's `core` output.
  Also here: `WebSocket.send_json` with `json.dumps` as a parameter.
-/
import Lomond.Model.Core

namespace Lomond.ZFrame
open Lomond Lomond.Core

/-- `Deflate.compress` as a parameter: the plaintexts handed to it so far on this connection
    (oldest first) ↦ the present plaintext ↦ the payload of the frame (`[:-4]` applied) -/
abbrev Deflater := List Bytes → Bytes → Bytes

/-- `session.write` / `send_compressed` got as far as `_sendall` -/
def isWrite : Obs → Bool
  | .wr _ | .wrz _ _ | .wrFail _ => true
  | _ => false

/-- an application call was refused by `_check_writable` (the frame had been built already:
    `session.send` runs `frame.to_bytes()` before `write`) -/
def isRefusal : Obs → Bool
  | .res .wsClosed | .res .wsClosing | .res .wsUnavailable => true
  | _ => false

/-- trace entries that stand for one `sendFrame` of the model each: every write — the first write
    of a connection is the upgrade request, which draws no key, hence the `- 1` in `keyIdx` — and
    every refused application call -/
def drawsKey (o : Obs) : Bool := isWrite o || isRefusal o

/-- number of writes among the entries -/
def nWrites (l : List Obs) : Nat := l.countP isWrite

/-- number of key-drawing entries -/
def nKeys (l : List Obs) : Nat := l.countP drawsKey

/-- **the key schedule**: the index (into the key source `cfg.maskKey`) of the masking key of the
    frame that is written after the entries `older` (the trace so far, in any order) -/
def keyIdx (older : List Obs) : Nat := nKeys older - 1

/-- the plaintexts the connection's compressor has consumed when the trace is `older` (newest
    entry first, as `Sys.trace` is), oldest first.  `none`: not determined by the trace — a
    compressed write whose `sendall` raised (`.wrFail []`) has consumed a plaintext the trace does
    not keep (and has left the peer with an unknown part of a frame). -/
def zHist : List Obs → Option (List Bytes)
  | [] => some []
  | .wrz _ plain :: older => (zHist older).map (· ++ [plain])
  | .wrFail [] :: _ => none
  | _ :: older => zHist older

/-- **what `sendall` received** for the entry `o` written after the entries `older` (newest
    first): a plain write is itself; a compressed write is the frame `send_compressed` builds —
    FIN=1, RSV1=1, RSV2=RSV3=0, masked with the next key of the key source, payload = the
    compressor's output for (history, plaintext).  `none`: not a successful write, history
    undetermined, or `Frame.build` refuses (payload of 2^63 bytes or more). -/
def wireOf (deflate : Deflater) (cfg : Cfg) (older : List Obs) : Obs → Option Bytes
  | .wr data => some data
  | .wrz op plain =>
    match zHist older with
    | none => none
    | some hist => Frame.build op (deflate hist plain) (cfg.maskKey (keyIdx older)) 1 1 0 0
  | _ => none

/-- everything the client put on the wire, one element per `sendall`, oldest first
    (`trace`: newest first) -/
def wireAll (deflate : Deflater) (cfg : Cfg) : List Obs → List Bytes
  | [] => []
  | o :: older =>
    wireAll deflate cfg older ++ (match wireOf deflate cfg older o with | some b => [b] | none => [])

/-- the compressed messages of a trace (newest first) as (opcode, plaintext), oldest first -/
def zCalls : List Obs → List (Nat × Bytes)
  | [] => []
  | .wrz op plain :: older => zCalls older ++ [(op, plain)]
  | _ :: older => zCalls older

/-- the payloads of the compressed frames, in wire order, for plaintexts `ps` sent after the
    compressor had consumed `hist` -/
def zPayloads (deflate : Deflater) : List Bytes → List Bytes → List Bytes
  | _, [] => []
  | hist, p :: ps => deflate hist p :: zPayloads deflate (hist ++ [p]) ps

/-- a peer that inflates the compressed payloads in the order they arrive; `inflate` sees the
    payloads received before (oldest first) and the present one; `none` as soon as one fails -/
def peerOutputs (inflate : List Bytes → Bytes → Option Bytes) : List Bytes → List Bytes → Option (List Bytes)
  | _, [] => some []
  | seen, z :: zs =>
    match inflate seen z with
    | none => none
    | some p =>
      match peerOutputs inflate (seen ++ [z]) zs with
      | none => none
      | some ps => some (p :: ps)

/-! ### `WebSocket.send_json` -/

/-- the arguments of `send_json(_obj=Ellipsis, **kwargs)`; `J` = Python objects -/
structure JsonCall (J : Type) where
  /-- the positional argument; `none` = not given (`Ellipsis`) -/
  obj : Option J
  /-- the dict of the keyword arguments, as an object -/
  kwargs : J
  /-- `bool(kwargs)`: at least one keyword argument -/
  hasKwargs : Bool

/-- `WebSocket.send_json`: `json.dumps` is the parameter `dumps` (`none` = TypeError, the object
    is not serialisable).
    ```
    if kwargs and _obj is not Ellipsis: raise ValueError(..)
    json_obj = json.dumps(_obj if _obj is not Ellipsis else kwargs)
    self.send_text(json_obj)
    ``` -/
def sendJson {J : Type} (dumps : J → Option (List Nat)) (c : JsonCall J) : M Unit :=
  if c.hasKwargs ∧ c.obj.isSome then logRes (pure .valueError)
  else
    match dumps (c.obj.getD c.kwargs) with
    | none => logRes (pure .typeError)
    | some text => doAct (.sendText (.str text) true)

/-- how the correspondence harness (`harness/world.py`, `act_token`) presents a `send_json` call
    to the model, which has no such act: the equivalent `send_text` call -/
def jsonAsAct {J : Type} (dumps : J → Option (List Nat)) (c : JsonCall J) : Act :=
  if c.hasKwargs ∧ c.obj.isSome then .sendText (.str [0xD800]) true      -- `st1=s55296`: ValueError
  else
    match dumps (c.obj.getD c.kwargs) with
    | none => .sendText .other true                                        -- `st1=o`: TypeError
    | some text => .sendText (.str text) true

end Lomond.ZFrame
