/-
  Model of lomond/utf8validator.py (pure-Python `Utf8Validator`) and an
  independent RFC 3629 specification (`wf`, `decode`, `encode`).
  The DFA table is *generated* from the source (`Gen.utf8Dfa`).
-/
import Lomond.Model.Basic
import Lomond.Generated.Tables

namespace Lomond.Utf8

/-- `UTF8VALIDATOR_DFA_S[b]` : byte class. (Python would raise IndexError out of range;
    in range for bytes `< 256`, proved in `Proofs/Utf8`.) -/
def cls (b : Nat) : Nat := Gen.utf8Dfa.getD b 1
/-- `UTF8VALIDATOR_DFA_S[256 + (state << 4) + c]` -/
def trans (s c : Nat) : Nat := Gen.utf8Dfa.getD (256 + s * 16 + c) 1
/-- one step of `Utf8Validator.validate`'s loop body -/
def step (s b : Nat) : Nat := trans s (cls b)

/-- plain fold of the DFA (no early exit) -/
def run (s : Nat) (bs : Bytes) : Nat := bs.foldl step s

/-- `Utf8Validator.validate(ba)` starting in `_state = s`:
    `none`  ⇔ the method returned `valid? = False` (and left `_state = UTF8_REJECT`);
    `some s'` ⇔ it returned `valid? = True` and left `_state = s'`. -/
def validate : Nat → Bytes → Option Nat
  | s, [] => some s
  | s, b :: bs =>
    let s' := step s b
    if s' = Gen.utf8Reject then none else validate s' bs

/-! ### Specification: RFC 3629 §4 (Unicode Table 3-7), written from the RFC, not from the DFA -/

def isTail (b : Nat) : Bool := 0x80 ≤ b && b ≤ 0xBF

/-- well-formed UTF-8 byte sequence -/
def wf : Bytes → Bool
  | [] => true
  | b0 :: r =>
    if b0 < 0x80 then wf r
    else if 0xC2 ≤ b0 ∧ b0 ≤ 0xDF then
      match r with
      | b1 :: r' => isTail b1 && wf r'
      | _ => false
    else if b0 = 0xE0 then
      match r with
      | b1 :: b2 :: r' => (0xA0 ≤ b1 && b1 ≤ 0xBF) && isTail b2 && wf r'
      | _ => false
    else if (0xE1 ≤ b0 ∧ b0 ≤ 0xEC) ∨ b0 = 0xEE ∨ b0 = 0xEF then
      match r with
      | b1 :: b2 :: r' => isTail b1 && isTail b2 && wf r'
      | _ => false
    else if b0 = 0xED then
      match r with
      | b1 :: b2 :: r' => (0x80 ≤ b1 && b1 ≤ 0x9F) && isTail b2 && wf r'
      | _ => false
    else if b0 = 0xF0 then
      match r with
      | b1 :: b2 :: b3 :: r' => (0x90 ≤ b1 && b1 ≤ 0xBF) && isTail b2 && isTail b3 && wf r'
      | _ => false
    else if 0xF1 ≤ b0 ∧ b0 ≤ 0xF3 then
      match r with
      | b1 :: b2 :: b3 :: r' => isTail b1 && isTail b2 && isTail b3 && wf r'
      | _ => false
    else if b0 = 0xF4 then
      match r with
      | b1 :: b2 :: b3 :: r' => (0x80 ≤ b1 && b1 ≤ 0x8F) && isTail b2 && isTail b3 && wf r'
      | _ => false
    else false

/-- Unicode scalar value: not a surrogate, at most U+10FFFF -/
def isScalar (c : Nat) : Bool := c < 0xD800 || (0xE000 ≤ c && c ≤ 0x10FFFF)

/-- UTF-8 encoding of one scalar value (shortest form) -/
def encodeOne (c : Nat) : Bytes :=
  if c < 0x80 then [c]
  else if c < 0x800 then [0xC0 + c / 64, 0x80 + c % 64]
  else if c < 0x10000 then [0xE0 + c / 4096, 0x80 + (c / 64) % 64, 0x80 + c % 64]
  else [0xF0 + c / 262144, 0x80 + (c / 4096) % 64, 0x80 + (c / 64) % 64, 0x80 + c % 64]

def encode (cs : List Nat) : Bytes := cs.flatMap encodeOne

/-- code point of a 2/3/4-byte form -/
def cp2 (b0 b1 : Nat) : Nat := (b0 - 0xC0) * 64 + (b1 - 0x80)
def cp3 (b0 b1 b2 : Nat) : Nat := (b0 - 0xE0) * 4096 + (b1 - 0x80) * 64 + (b2 - 0x80)
def cp4 (b0 b1 b2 b3 : Nat) : Nat :=
  (b0 - 0xF0) * 262144 + (b1 - 0x80) * 4096 + (b2 - 0x80) * 64 + (b3 - 0x80)

/-- strict decoder (what `bytes.decode('utf-8')` must agree with): `none` iff ill-formed -/
def decode : Bytes → Option (List Nat)
  | [] => some []
  | b0 :: r =>
    if b0 < 0x80 then (decode r).map (b0 :: ·)
    else if 0xC2 ≤ b0 ∧ b0 ≤ 0xDF then
      match r with
      | b1 :: r' => if isTail b1 then (decode r').map (cp2 b0 b1 :: ·) else none
      | _ => none
    else if b0 = 0xE0 then
      match r with
      | b1 :: b2 :: r' =>
        if (0xA0 ≤ b1 && b1 ≤ 0xBF) && isTail b2 then (decode r').map (cp3 b0 b1 b2 :: ·) else none
      | _ => none
    else if (0xE1 ≤ b0 ∧ b0 ≤ 0xEC) ∨ b0 = 0xEE ∨ b0 = 0xEF then
      match r with
      | b1 :: b2 :: r' =>
        if isTail b1 && isTail b2 then (decode r').map (cp3 b0 b1 b2 :: ·) else none
      | _ => none
    else if b0 = 0xED then
      match r with
      | b1 :: b2 :: r' =>
        if (0x80 ≤ b1 && b1 ≤ 0x9F) && isTail b2 then (decode r').map (cp3 b0 b1 b2 :: ·) else none
      | _ => none
    else if b0 = 0xF0 then
      match r with
      | b1 :: b2 :: b3 :: r' =>
        if (0x90 ≤ b1 && b1 ≤ 0xBF) && isTail b2 && isTail b3 then
          (decode r').map (cp4 b0 b1 b2 b3 :: ·) else none
      | _ => none
    else if 0xF1 ≤ b0 ∧ b0 ≤ 0xF3 then
      match r with
      | b1 :: b2 :: b3 :: r' =>
        if isTail b1 && isTail b2 && isTail b3 then (decode r').map (cp4 b0 b1 b2 b3 :: ·) else none
      | _ => none
    else if b0 = 0xF4 then
      match r with
      | b1 :: b2 :: b3 :: r' =>
        if (0x80 ≤ b1 && b1 ≤ 0x8F) && isTail b2 && isTail b3 then
          (decode r').map (cp4 b0 b1 b2 b3 :: ·) else none
      | _ => none
    else none

end Lomond.Utf8
