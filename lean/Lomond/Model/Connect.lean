/-
  `WebsocketSession._connect_sock` (session.py): `getaddrinfo`, then one attempt per resolved address,
  in order — `socket()`, (options, optional TLS wrap), `connect()`; a socket whose `connect()` fails is
  closed; the first address that connects wins; `_SocketFail` when none does (or when the name does
  not resolve).  The operating system is a parameter: the outcome per address.
-/
import Lomond.Model.Basic

namespace Lomond.Connect

/-- what happens at one resolved address -/
inductive AddrOutcome
  | ok               -- `socket()` and `connect()` succeed
  | sockCreateFail   -- `socket.socket(...)` raises `socket.error`
  | connectFail      -- `sock.connect(sa)` raises `socket.error`
  deriving Repr, DecidableEq, Inhabited

/-- calls made on the socket module / sockets, by address index -/
inductive Call
  | socket (i : Nat)
  | connect (i : Nat)
  | close (i : Nat)
  deriving Repr, DecidableEq, Inhabited

/-- result of `_connect_sock`: the socket of address `i`, or `_SocketFail` -/
inductive Result
  | sock (i : Nat)
  | fail
  deriving Repr, DecidableEq, Inhabited

/-- the `for res in addr_info:` loop from address index `i` on; calls oldest first -/
def attempt (i : Nat) : List AddrOutcome → Option Nat × List Call
  | [] => (none, [])
  | .sockCreateFail :: r =>
    let (res, l) := attempt (i + 1) r
    (res, .socket i :: l)
  | .connectFail :: r =>
    let (res, l) := attempt (i + 1) r
    (res, .socket i :: .connect i :: .close i :: l)
  | .ok :: _ => (some i, [.socket i, .connect i])

/-- `_connect_sock`: `none` = `getaddrinfo` raised `socket.error` -/
def connectSock (gai : Option (List AddrOutcome)) : Result × List Call :=
  match gai with
  | none => (.fail, [])
  | some addrs =>
    match attempt 0 addrs with
    | (some i, l) => (.sock i, l)
    | (none, l) => (.fail, l)

end Lomond.Connect
