/-
  Parsing of operation lines and canonical printing of model results.
  (Executable glue for the correspondence check; nothing here is used by a theorem.)
-/
import Lomond.Model.Basic
import Lomond.Model.Utf8
import Lomond.Model.Frame
import Lomond.Model.Http
import Lomond.Model.Core
import Lomond.Model.Persist
import Lomond.Model.Threads
import Lomond.Model.ThreadsN
import Lomond.Model.Inflate
import Lomond.Model.Connect
import Lomond.Model.Handshake
import Lomond.Model.Attempt
import Lomond.Model.Proxy
import Lomond.Model.Transport
import Lomond.Model.Reconnect
import Lomond.Model.ConnectLink
import Lomond.Model.PersistLink
import Lomond.Model.ZFrame
import Lomond.Model.DeflEnc
import Lomond.Model.CloseSocket
import Lomond.Model.KeyChain
import Lomond.Model.Mask
import Lomond.Generated.Code

namespace Lomond.Driver
open Lomond Lomond.Core

def splitOn (s : String) (sep : String) : List String := s.splitOn sep

def natOf (s : String) : Nat := s.toNat?.getD 0

def hexD (s : String) : Bytes := (bytesOfHex s).getD []

def kv (toks : List String) (k : String) (d : String) : String :=
  match toks.find? (fun t => t.startsWith (k ++ "=")) with
  | some t => (t.drop (k.length + 1)).toString
  | none => d

def testKey (k : Nat) : Bytes := [(k * 7 + 1) % 256, (k * 13 + 5) % 256, (k * 31 + 17) % 256, (k * 3 + 101) % 256]

def parseArg (s : String) : Arg :=
  if s.startsWith "b" then .bytes (hexD (s.drop 1).toString)
  else if s.startsWith "s" then
    let body := (s.drop 1).toString
    if body = "" then .str [] else .str ((body.splitOn ".").map natOf)
  else .other

def parseAct (s : String) : Option Act :=
  if s = "sc" then some .sessionClose
  else if s = "ab0" then some (.abandon false)
  else if s = "ab1" then some (.abandon true)
  else
    match s.splitOn "=" with
    | [h, a] =>
      if h = "st1" then some (.sendText (parseArg a) true)
      else if h = "st0" then some (.sendText (parseArg a) false)
      else if h = "sb1" then some (.sendBinary (parseArg a) true)
      else if h = "sb0" then some (.sendBinary (parseArg a) false)
      else if h = "pi" then some (.sendPing (parseArg a))
      else if h = "po" then some (.sendPong (parseArg a))
      else if h = "cl" then
        match a.splitOn "," with
        | [c, r] => some (.close (if c = "N" then none else some (natOf c)) (parseArg r))
        | _ => none
      else none
    | _ => none

/-- reaction table: event index ↦ acts -/
def parseReactions (toks : List String) : List (Nat × List Act) :=
  toks.filterMap fun t =>
    match t.splitOn ":" with
    | [i, acts] => some (natOf i, (acts.splitOn ";").filterMap parseAct)
    | _ => none

def parseEnvTok (t : String) : Option EnvStep :=
  if t = "S" then some .selErr
  else
    let c := t.take 1 |>.toString
    let body := (t.drop 1).toString
    if c = "w" then some (.wait (natOf body) none)
    else if c = "e" then some (.wait (natOf body) (some .eof))
    else if c = "x" then some (.wait (natOf body) (some .sockErr))
    else if c = "o" then some (.wait (natOf body) (some .otherErr))
    else if c = "r" then
      match body.splitOn ":" with
      | [dt, hx] => some (.wait (natOf dt) (some (.data (hexD hx))))
      | _ => none
    else none

def bit (s : String) (i : Nat) : Bool := (s.toList.getD i '1') == '1'

def parseVariant (s : String) : Variant :=
  { ctrlLen := bit s 0, keepIsText := bit s 1, perMsgValidate := bit s 2,
    closeArgs := bit s 3, cleanup := bit s 4, strictAccept := bit s 5 }

def showStr (s : List Nat) : String := hexOfBytes (Utf8.encode (s.map (fun c => if 0xD800 ≤ c ∧ c ≤ 0xDFFF then 0xFFFD else c)))

def showCode : Option Nat → String
  | none => "N"
  | some c => toString c

def us (s : String) : String := s.map (fun c => if c == ' ' then '_' else c)

def showEvent : Event → String
  | .connecting => "E:connecting"
  | .connectFail k => "E:connect_fail:" ++ k
  | .connected p => "E:connected:" ++ (if p then "1" else "0")
  | .ready proto d => "E:ready:" ++ (match proto with | none => "-" | some p => "p" ++ showStr p) ++ ":" ++ (if d then "1" else "0")
  | .rejected r => "E:rejected:" ++ showStr r
  | .text t => "E:text:" ++ showStr t
  | .binary d => "E:binary:" ++ hexOfBytes d
  | .ping d => "E:ping:" ++ hexOfBytes d
  | .pong d => "E:pong:" ++ hexOfBytes d
  | .closing c r => "E:closing:" ++ showCode c ++ ":" ++ showStr r
  | .closed c r => "E:closed:" ++ showCode c ++ ":" ++ showStr r
  | .protocolError m c => "E:protocol_error:" ++ us m ++ ":" ++ (if c then "1" else "0")
  | .poll => "E:poll"
  | .unresponsive => "E:unresponsive"
  | .disconnected k g => "E:disconnected:" ++ k ++ ":" ++ (if g then "1" else "0")

def showRes : ActRes → String
  | .ok => "ok" | .typeError => "TypeError" | .valueError => "ValueError" | .structError => "struct.error"
  | .wsClosed => "WebSocketClosed" | .wsClosing => "WebSocketClosing"
  | .wsUnavailable => "WebSocketUnavailable" | .transportFail => "TransportFail"

def showObs : Obs → String
  | .ev e => showEvent e
  | .wr d => "W:" ++ hexOfBytes d
  | .wrz op plain => "Z:" ++ toString op ++ ":" ++ hexOfBytes plain
  | .wrFail d => "WF:" ++ hexOfBytes d
  | .sockClose => "SC"
  | .selClose => "LC"
  | .res r => "R:" ++ showRes r
  | .tick n => "T:" ++ toString n
  | .incomplete => "INCOMPLETE"

def b2s (b : Bool) : String := if b then "1" else "0"

/-- the three sections of a `core` line: configuration, environment script, reaction table -/
def coreOfParts (cfgS envS reactS : String) : Cfg × React × List EnvStep :=
  let ct := cfgS.splitOn " "
  let wf := (kv ct "wfail" "-")
  let wfl : List Nat := if wf = "-" then [] else (wf.splitOn ",").map natOf
  let conn := kv ct "conn" "ok"
  let cfg : Cfg :=
    { v := parseVariant (kv ct "v" "111110")
      poll := natOf (kv ct "poll" "5")
      pingRate := natOf (kv ct "prate" "30")
      pingTimeout := natOf (kv ct "ptimeout" "0")
      autoPong := kv ct "autopong" "1" = "1"
      closeTimeout := natOf (kv ct "ctimeout" "30")
      connect := if conn = "ok" then .ok false else if conn = "okproxy" then .ok true
                 else if conn = "sockfail" then .socketFail
                 else if conn = "selfail" then .selFail false
                 else if conn = "selfailproxy" then .selFail true else .otherFail
      request := hexD (kv ct "req" "")
      -- not an input: the accept value for the key found in the request (`Handshake.cfgOfRequest`);
      -- a `chal=` token of an old line is ignored
      challenge := Handshake.challengeOfRequest (hexD (kv ct "req" ""))
      writeFails := fun k => wfl.contains k
      maskKey := testKey
      inflate := if kv ct "zsafe" "0" = "1" then Inflate.inflateAllSafe else Inflate.inflateAll }
  let env := (envS.splitOn " ").filterMap parseEnvTok
  let table := parseReactions (reactS.splitOn " ")
  let react : React := fun hist =>
    match table.find? (fun p => p.1 + 1 = hist.length) with
    | some p => p.2
    | none => []
  (cfg, react, env)

def showEnd (s : Sys) : String :=
  "END:sock=" ++ b2s s.sockOpen ++ ":sel=" ++ b2s s.selOpen ++
    ":closing=" ++ b2s s.closing ++ ":closed=" ++ b2s s.closed

def runCore (line : String) : String :=
  match line.splitOn " | " with
  | [cfgS, envS, reactS] =>
    let (cfg, react, env) := coreOfParts cfgS envS reactS
    let s := runAll cfg react env
    let obs := s.trace.reverse.map showObs
    " ".intercalate (obs ++ [showEnd s])
  | _ => "bad-op"

/-- the final state of the connection described by a `core` line -/
def coreSys (line : String) : Option Sys :=
  match line.splitOn " | " with
  | [cfgS, envS, reactS] =>
    let (cfg, react, env) := coreOfParts cfgS envS reactS
    some (runAll cfg react env)
  | _ => none

/-- C03: `corez <z0,z1,…|-> | <core line>`: everything the client put on the wire during the
    connection of the `core` line, one hex token per `sendall`, compressed frames included
    (`ZFrame.wireAll`); the compressor is the table "the i-th plaintext compressed on this
    connection gives `z_i`" (what zlib returned in the real run) -/
def runCoreZ (line : String) : String :=
  match line.splitOn " | " with
  | zs :: rest =>
    let table : List Bytes := if zs = "-" then [] else (zs.splitOn ",").map hexD
    match coreSys (" | ".intercalate rest) with
    | some s =>
      let deflate : ZFrame.Deflater := fun hist _ => table.getD hist.length []
      " ".intercalate ((ZFrame.wireAll deflate s.cfg s.trace).map hexOfBytes)
    | none => "bad-op"
  | _ => "bad-op"

/-- C06: `deflenc <block>/<block>/…`: the reference encoder (Model/DeflEnc.lean) on one message.
    A block is `<kind><0|1>:<token>,<token>,…` — kind `s` = stored if possible, `f` = fixed Huffman,
    `d` = dynamic Huffman, written `d<0|1>;<ll>;<dl>:…` with the literal/length and the distance
    code lengths as strings of hex digits (one per symbol); the digit after the kind is BFINAL; a
    token is `L<byte>` or `C<distance>.<length>`; `-` = no blocks.  Prints the payload (without
    the `00 00 ff ff` tail) and which dynamic blocks were really written as such
    (`dyn=<0|1>…`), or `unencodable` if a token is out of range. -/
def runDeflEnc (args : List String) : String :=
  let parseTok (t : String) : Deflate.Token :=
    if t.startsWith "L" then .lit (natOf (t.drop 1).toString)
    else
      match ((t.drop 1).toString).splitOn "." with
      | [d, n] => .copy (natOf d) (natOf n)
      | _ => .copy 0 0
  let lensOf (x : String) : List Nat := x.toList.map fun c => (hexVal c).getD 0
  let parseBlk (b : String) : DeflEnc.Kind × Deflate.Blk :=
    match b.splitOn ":" with
    | [hd, toks] =>
      let hs := hd.splitOn ";"
      let h0 := hs.headD ""
      -- `r<fin>;<cll: 19 hex digits>;<nc>;<nl>;<items l<n> | a<k> | b<k> | c<k> separated by '.'>` = a header with
      -- the repeat codes 16 (a) / 17 (b) / 18 (c); `R<fin>;<ll>;<dl>` = `Kind.rleOf ll dl`
      let itemOf (x : String) : DeflEnc.Item :=
        let k := natOf (x.drop 1).toString
        if x.startsWith "a" then .rep16 k else if x.startsWith "b" then .rep17 k
        else if x.startsWith "c" then .rep18 k else .lit k
      let kind : DeflEnc.Kind :=
        if h0.startsWith "s" then .stored
        else if h0.startsWith "d" then .dyn (lensOf (hs.getD 1 "")) (lensOf (hs.getD 2 ""))
        else if h0.startsWith "r" then
          .dynRle (lensOf (hs.getD 1 "")) (natOf (hs.getD 2 "")) (natOf (hs.getD 3 ""))
            (if hs.getD 4 "" = "" then [] else ((hs.getD 4 "").splitOn ".").map itemOf)
        else if h0.startsWith "R" then DeflEnc.Kind.rleOf (lensOf (hs.getD 1 "")) (lensOf (hs.getD 2 ""))
        else .fixed
      (kind, { final := h0.endsWith "1",
               toks := if toks = "" then [] else (toks.splitOn ",").map parseTok })
    | _ => (.fixed, { final := false, toks := [.copy 0 0] })
  match args with
  | [spec] =>
    let kbs := if spec = "-" || spec = "" then [] else (spec.splitOn "/").map parseBlk
    if kbs.all (fun sb => DeflEnc.Blk.ok sb.2) then
      let dyn := kbs.filterMap fun sb => match sb.1 with
        | .dyn ll dl => some (if DeflEnc.dynOk ll dl sb.2.toks then "1" else "0")
        | .dynRle cll nc nl items => some (if DeflEnc.rleOk cll nc nl items sb.2.toks then "1" else "0")
        | _ => none
      "ok " ++ hexOfBytes (DeflEnc.encMsgK kbs) ++ " dyn=" ++ String.join dyn
    else "unencodable"
  | _ => "bad-op"

def runUtf8 (args : List String) : String :=
  match args with
  | ["step", s, b] => toString (Utf8.step (natOf s) (natOf b))
  | ["validate", s, hx] =>
    match Utf8.validate (natOf s) (hexD hx) with
    | none => "invalid"
    | some st => "valid " ++ toString st
  | ["wf", hx] => if Utf8.wf (hexD hx) then "1" else "0"
  | ["decode", hx] =>
    match Utf8.decode (hexD hx) with
    | none => "error"
    | some cps => "ok " ++ ".".intercalate (cps.map toString)
  | ["encode", cps] =>
    hexOfBytes (Utf8.encode (if cps = "" then [] else (cps.splitOn ".").map natOf))
  | _ => "bad-op"

/-! ### C16: `persist <cfg> | <draw> <exit> <event tokens…> | …`  (one section per round) -/

def intOf (s : String) : Int :=
  if s.startsWith "-" then - (Int.ofNat (natOf (s.drop 1).toString)) else Int.ofNat (natOf s)

def ratOf (s : String) : Rat :=
  match s.splitOn "/" with
  | [n] => mkRat (intOf n) 1
  | [n, d] => mkRat (intOf n) (natOf d)
  | _ => 0

def showRat (r : Rat) : String := toString r.num ++ "/" ++ toString r.den

/-- `event.name == 'ready'`: the name is the second `:`-separated field of an event token -/
def tokIsReady (t : String) : Bool := (t.splitOn ":").getD 1 "" == "ready"

def showPersistObs : Persist.Obs String String → String
  | .connect p r t => "C:" ++ p ++ "," ++ r ++ "," ++ t
  | .yield (.ev e) => e
  | .yield (.backOff d) => "B:" ++ showRat d
  | .random => "R"
  | .wait d => "X:" ++ showRat d

def parseRound (sec : String) : Option (Persist.Round String) :=
  match (sec.splitOn " ").filter (fun w => w ≠ "") with
  | u :: x :: evs => some { events := evs, draw := ratOf u, exit := x = "1" }
  | _ => none

def runPersist (line : String) : String :=
  match line.splitOn " | " with
  | [] => "bad-op"
  | cfgS :: secs =>
    let ct := cfgS.splitOn " "
    let cfg : Persist.Cfg String :=
      { minWait := ratOf (kv ct "min" "5"), maxWait := ratOf (kv ct "max" "30"),
        poll := kv ct "poll" "5", pingRate := kv ct "prate" "30", pingTimeout := kv ct "ptimeout" "N" }
    let rounds := secs.filterMap parseRound
    if rounds.length ≠ secs.length then "bad-op"
    else
      let res := Persist.persist tokIsReady cfg rounds
      " ".intercalate (res.1.map showPersistObs ++
        [match res.2 with | .exited => "END:exited" | .running => "END:running"])

/-! ### C19: `proxy <cfg> | <reads>` -/

def showOptStr : Option Http.Str → String
  | none => "N"
  | some s => "s" ++ hexOfBytes s

def showFailKind : Proxy.FailKind → String
  | .badUrl => "bad_url" | .badPort => "bad_port" | .proxyConnect => "proxy_connect" | .connect => "connect"
  | .noHost => "no_host" | .writeErr => "write_err" | .readErr => "read_err" | .timeout => "timeout"
  | .parseEof => "parse_eof" | .parseTooLong => "parse_too_long"
  | .proxyStatus c => "proxy_status=" ++ Http.showStatus c
  | .wrap => "wrap" | .requestFailed => "request_failed"

def showIo : Proxy.Io → String
  | .ev .connecting => "E:connecting"
  | .ev (.connectFail k) => "E:connect_fail:" ++ showFailKind k
  | .ev (.connected p) => "E:connected:" ++ showOptStr p
  | .connectTo h p s => "C:" ++ showOptStr h ++ ":" ++ toString p ++ ":" ++ (if s then "1" else "0")
  | .write tls bs ok => (if ok then "W:" else "WF:") ++ (if tls then "1" else "0") ++ ":" ++ hexOfBytes bs
  | .read (.data d) => "R:" ++ hexOfBytes d
  | .read .err => "R:err"
  | .read .timeout => "R:timeout"
  | .wrap h ok => "T:" ++ showOptStr h ++ ":" ++ (if ok then "1" else "0")

def parseRead (t : String) : Option Proxy.ReadOutcome :=
  if t = "x" then some .err
  else if t = "t" then some .timeout
  else if t.startsWith "d" then some (.data (hexD (t.drop 1).toString))
  else none

def optHex (s : String) : Option Http.Str := if s = "-" then none else some (hexD s)

def runProxy (line : String) : String :=
  match line.splitOn " | " with
  | [cfgS, readsS] =>
    let ct := cfgS.splitOn " "
    let wf := kv ct "wfail" "-"
    let wfl : List Nat := if wf = "-" then [] else (wf.splitOn ",").map natOf
    match Proxy.mkTarget (hexD (kv ct "url" "")) with
    | none => "CTOR:ValueError"
    | some tgt =>
      let c : Proxy.Cfg :=
        { target := tgt, proxyHttp := optHex (kv ct "http" "-"), proxyHttps := optHex (kv ct "https" "-"),
          request := hexD (kv ct "req" "") }
      let e : Proxy.Env :=
        { connectOk := kv ct "conn" "1" = "1", writeFails := fun k => wfl.contains k,
          reads := (readsS.splitOn " ").filterMap parseRead, wrapOk := kv ct "wrap" "1" = "1" }
      " ".intercalate ((Proxy.run c e).map showIo)
  | _ => "bad-op"

/-- C18: `xport tls=<0|1> poll=<n> sc=<0|1> eof=<n|-> fuel=<n> | <t>:<len> <t>:<len> ...`
    (payload bytes are opaque to the transport model: only lengths travel) -/
def runXport (line : String) : String :=
  match line.splitOn " | " with
  | [cfgS, arrS] =>
    let ct := cfgS.splitOn " "
    let eofS := kv ct "eof" "-"
    let cfg : Transport.Cfg := { poll := natOf (kv ct "poll" "5"), shortcut := kv ct "sc" "1" = "1" }
    let arrivals : List (Nat × Bytes) := (arrS.splitOn " ").filterMap fun t =>
      match t.splitOn ":" with
      | [a, b] => some (natOf a, List.replicate (natOf b) 0)
      | _ => none
    let s := Transport.run cfg (natOf (kv ct "fuel" "1000000"))
      (Transport.init (kv ct "tls" "0" = "1") arrivals (if eofS = "-" then none else some (natOf eofS)))
    let showTok : Transport.Tok → String
      | .pend n => "P" ++ toString n
      | .wait t0 t1 r k p => "W" ++ toString t0 ++ ":" ++ toString t1 ++ ":" ++ b2s r ++ ":" ++ toString k ++ ":" ++ toString p
      | .recv t c n => "R" ++ toString t ++ ":" ++ toString c ++ ":" ++ toString n
    " ".intercalate (s.trace.map showTok ++
      ["END:stopped=" ++ b2s s.stopped ++ ":fed=" ++ toString ((s.log.map (fun a => a.2.length)).foldl (· + ·) 0) ++
       ":now=" ++ toString s.now])
  | _ => "bad-op"

/-! ### C10: `http ...` operations (response parsing, `on_response`, `build_request`, base64, SHA-1, accept value) -/

def showDeflate : Option Http.DeflateCfg → String
  | none => "-"
  | some d => s!"{d.decompressWbits}.{d.compressWbits}.{b2s d.resetDecompress}.{b2s d.resetCompress}"

def showResponse (r : Http.Response) : String :=
  "ver=" ++ showStr r.httpVer ++ " code=" ++ Http.showStatus r.statusCode ++ " status=" ++ showStr r.status ++
  " hdrs=" ++ ",".intercalate (r.headers.map (fun p => showStr p.1 ++ ":" ++ showStr p.2))

def showSpecRequest : Option Spec.Request → String
  | none => "malformed"
  | some q => "m=" ++ hexOfBytes q.method ++ " t=" ++ hexOfBytes q.target ++ " v=" ++ hexOfBytes q.version ++
      " hdrs=" ++ ",".intercalate (q.headers.map (fun p => hexOfBytes p.1 ++ ":" ++ hexOfBytes p.2))

/-- comma-separated hex strings; `-` stands for the empty string, the empty text for the empty list -/
def hexList (s : String) : List Bytes :=
  if s = "" then [] else (s.splitOn ",").map (fun t => if t = "-" then [] else hexD t)

def runHttp (args : List String) : String :=
  match args with
  -- `resp <strict> <key> <block>`: `key` is `state.key` (the base64 text); the expected accept value is computed
  | ["resp", strict, key, hx] =>
    let r := Http.parseResponse (hexD hx)
    let out := match Http.onResponse (strict = "1") (Handshake.acceptFor (hexD key)) r with
      | .error m => "err:" ++ showStr m
      | .ok a => "ok:" ++ (match a.protocol with | none => "-" | some p => "p" ++ showStr p) ++ ":" ++ showDeflate a.deflate
    showResponse r ++ " res=" ++ out
  | "req" :: toks =>
    let port := kv toks "port" "-"
    let url : Handshake.Url :=
      { secure := kv toks "secure" "0" = "1", host := hexD (kv toks "host" ""),
        port := if port = "-" then none else some (natOf port),
        path := hexD (kv toks "path" ""), query := hexD (kv toks "query" "") }
    let hdrs := (hexList (kv toks "hdrs" "")).zip (hexList (kv toks "vals" ""))
    let c : Handshake.Client :=
      { url := url, agent := hexD (kv toks "agent" ""), protocols := hexList (kv toks "protos" ""),
        customHeaders := hdrs, compress := kv toks "compress" "0" = "1" }
    let key := Handshake.b64encode (hexD (kv toks "rnd" ""))
    let req := Http.buildRequest (c.reqCfg key)
    hexOfBytes req ++ " spec:" ++ showSpecRequest (Spec.parseRequest req)
  | ["parsereq", hx] => showSpecRequest (Spec.parseRequest (hexD hx))
  | ["b64", hx] => hexOfBytes (Handshake.b64encode (hexD hx))
  | ["sha1", hx] => hexOfBytes (Sha1.sha1 (hexD hx))
  | ["accept", hx] => hexOfBytes (Handshake.acceptFor (hexD hx))
  | ["keyof", hx] => hexOfBytes (Handshake.keyOfRequest (hexD hx))
  -- `keychain <hex of the concatenated 16-byte nonces>`: the keys of one object's States (constructor, connect #1, #2, …)
  | ["keychain", hx] => " ".intercalate ((KeyChain.chainKeys (hexD hx)).map hexOfBytes)
  | ["b64d", hx] =>
    match Handshake.b64decode (hexD hx) with
    | none => "error"
    | some b => "ok " ++ hexOfBytes b
  | _ => "bad-op"

/-! ### C03: `frame build|decode|mask|closepayload …` (the frame codec on its own) -/

/-- decode a whole byte string as a sequence of client frames (`fuel` bounds the loop) -/
def decodeAll : Nat → Bytes → Option (List Spec.Decoded)
  | 0, bs => if bs = [] then some [] else none
  | fuel + 1, bs =>
    if bs = [] then some []
    else
      match Spec.decodeClientFrame bs with
      | none => none
      | some (d, rest) => (decodeAll fuel rest).map (d :: ·)

def showDecoded (d : Spec.Decoded) : String :=
  toString d.fin ++ toString d.rsv1 ++ toString d.rsv2 ++ toString d.rsv3 ++ ":" ++ toString d.opcode ++ ":" ++
    hexOfBytes d.key ++ ":" ++ hexOfBytes d.payload

def bitAt (s : String) (i : Nat) : Nat := if (s.toList.getD i '0') == '1' then 1 else 0

def showMaskR (r : Mask.R) : String :=
  let showErr : Mask.Err → String
    | .valueError => "ValueError" | .indexError => "IndexError" | .nameError => "NameError"
  match r with
  | .ok d => "ok " ++ hexOfBytes d
  | .error (e, d) => "EXC:" ++ showErr e ++ " " ++ hexOfBytes d

def runFrame (args : List String) : String :=
  match args with
  | ["build", op, bits, pl, key] =>
    match Frame.build (natOf op) (hexD pl) (hexD key) (bitAt bits 0) (bitAt bits 1) (bitAt bits 2) (bitAt bits 3) with
    | some b => hexOfBytes b
    | none => "FrameBuildError"
  | ["decode", hx] =>
    match decodeAll (hexD hx).length (hexD hx) with
    | none => "invalid"
    | some ds => "ok " ++ " ".intercalate (ds.map showDecoded)
  | ["mask", key, data] => hexOfBytes (maskPayload (hexD key) (hexD data))
  | ["maskmech", key, data] =>
    -- the mechanics model of mask.py (Model/Mask.lean): result bytes, or the exception and the bytearray's content then
    showMaskR (Mask.maskPayloadMech (hexD key) (hexD data))
  | ["lanemech", ts, tst, ss, sst, kb, data] =>
    -- one statement `data[ts::tst] = data[ss::sst].translate(_XOR_TABLE[kb])` with arbitrary slices (the primitives' semantics)
    showMaskR (Mask.laneStmt [("r", Mask.xorTable.getD (natOf kb) [])] (natOf ts, natOf tst, natOf ss, natOf sst, "r") (hexD data))
  | ["closepayload", code, reason] =>
    hexOfBytes (buildClosePayload (if code = "N" then none else some (natOf code)) (hexD reason))
  | _ => "bad-op"

/-- `connect -` (name does not resolve) or `connect o1,o2,…` with `oi ∈ {ok, sfail, cfail}`;
    answer: `<sockN|fail> <call>,<call>,…` -/
def runConnect (arg : String) : String :=
  let gai : Option (List Connect.AddrOutcome) :=
    if arg = "-" then none
    else if arg = "" then some []
    else some ((arg.splitOn ",").map fun t =>
      if t = "ok" then Connect.AddrOutcome.ok else if t = "sfail" then .sockCreateFail else .connectFail)
  let (r, l) := Connect.connectSock gai
  let rs := match r with
    | .sock i => "sock" ++ toString i
    | .fail => "fail"
  let showCall : Connect.Call → String
    | .socket i => "socket" ++ toString i
    | .connect i => "connect" ++ toString i
    | .close i => "close" ++ toString i
  rs ++ " " ++ ",".intercalate (l.map showCall)

/-- C06: `inflate <wbits> <hex>` / `inflatesafe <wbits> <hex>`: the bit-level inflater on a whole
    compressed history, as zlib's object behaves / as the repaired `Deflate.decompress` behaves -/
def runInflate (safe : Bool) (args : List String) : String :=
  let f := if safe then Inflate.inflateAllSafe else Inflate.inflateAll
  match args with
  | [w, hx] =>
    match f (natOf w) (hexD hx) with
    | none => "error"
    | some out => "ok " ++ hexOfBytes out
  | [w] =>
    match f (natOf w) [] with
    | none => "error"
    | some out => "ok " ++ hexOfBytes out
  | _ => "bad-op"

/-- C06: `deflateopts <cp.cp.cp…>`: one element of Sec-WebSocket-Extensions (code points) through
    `parse_extension` + `Deflate.from_options` -/
def runDeflateOpts (args : List String) : String :=
  let ext : Http.Str := match args with
    | [a] => if a = "" then [] else (a.splitOn ".").map natOf
    | _ => []
  let (tok, opts) := Http.parseExtension ext
  "tok=" ++ showStr tok ++ " " ++
    (match Http.deflateFromOptions opts with
     | .error m => "error " ++ showStr m
     | .ok d => "ok " ++ toString d.decompressWbits ++ " " ++ toString d.compressWbits ++ " " ++
                b2s d.resetDecompress ++ " " ++ b2s d.resetCompress)

/-! ### C11 / C12: `threads v=<cu><ca> z=<0|1|2|3|4> | <prog> / <prog> ... | <schedule digits>`
    (z: 1 = permessage-deflate, 2 = + client_no_context_takeover, 3 = + server_no_context_takeover, 4 = both) -/

namespace Thr
open Lomond.Threads

def parseCall (tok : String) : Option Call :=
  if tok = "tk" then some .autoPing
  else if tok = "cn" then some .connect
  else if tok = "ab" then some .abandon
  else
    match tok.splitOn "=" with
    | [h, a] =>
      let codeReason : Option (Option Nat × Bytes) :=
        match a.splitOn "," with
        | [c, r] => some (if c = "N" then none else some (natOf c), hexD r)
        | _ => none
      if h = "st1" then some (.sendText (hexD a) true)
      else if h = "st0" then some (.sendText (hexD a) false)
      else if h = "sb1" then some (.sendBinary (hexD a) true)
      else if h = "sb0" then some (.sendBinary (hexD a) false)
      else if h = "pi" then some (.sendPing (hexD a))
      else if h = "po" then some (.sendPong (hexD a))
      else if h = "cl" then codeReason.map (fun p => .close p.1 p.2)
      else if h = "rc" then codeReason.map (fun p => .onClose p.1 p.2)
      else if h = "rp" then some (.onPing (hexD a))
      else if h = "rm" then some (.onData (hexD a))
      else if h = "rm2" then some (.onData2 (hexD a) [])
      else none
    | _ => none

def parseProgs (s : String) : List (List Call) :=
  (s.splitOn " / ").map fun p => ((p.splitOn " ").filter (· ≠ "")).filterMap parseCall

def parseSched (s : String) : List Tid :=
  s.toList.filterMap fun c => if c.isDigit then some (c.toNat - 48) else none

def kindName : Step → String
  | .rdSock => "rd:sock" | .chkSock => "rd:sock"
  | .rdClosed => "rd:closed" | .retIfClosed => "rd:closed" | .chkClosed => "rd:closed"
  | .retIfClosing => "rd:closing" | .chkClosing => "rd:closing" | .brIfClosing _ => "rd:closing"
  | .ldClosing => "rd:closing" | .chkBoth => "rd:closed"
  | .compress _ => "z:compress" | .flush => "z:flush" | .zreset => "z:reset"
  | .acquire => "acq" | .release => "rel"
  | .write1 _ => "w1" | .write2 _ => "w2"
  | .setClosing b => "wr:closing=" ++ b2s b
  | .setClosed => "wr:closed=1"
  | .setCloseTime => "wr:sent_close_time"
  | .sockClose => "sockclose"
  | .setSockNone => "wr:sock"
  | .inflate _ => "zd:inflate"
  | .dpeek => "zd:peek"
  | .dreset => "zd:reset"
  | .setSock => "wr:sock"
  | .brIfErr _ => "rd:closed"       -- refined by `entryName`: which of its own variables the loop reads next

/-- what entry `t` is going to do in state `s` -/
def entryName (v : Threads.Variant) (cfg : Threads.Cfg) (s : State) (t : Tid) : String :=
  match (s.th t).current v cfg with
  | none => "idle"
  | some c =>
    match c.rest with
    | [] => "idle"
    | st :: _ =>
      if blockedOn s.sh c then "blocked"
      else
        match st with
        -- after `_send_request()`: `_close_socket()` tests `_sock` when the write raised, the loop tests `is_closed` otherwise
        | .brIfErr _ => if c.err.isSome then "rd:sock" else "rd:closed"
        | _ => kindName st

def traceOf (v : Threads.Variant) (cfg : Threads.Cfg) : State → List Tid → List String
  | _, [] => []
  | s, t :: r => ("x" ++ toString t ++ ":" ++ entryName v cfg s t) :: traceOf v cfg (step v cfg s t) r

def errName : Err → String
  | .unavailable => "WebSocketUnavailable" | .closed => "WebSocketClosed" | .closing => "WebSocketClosing"
  | .transport => "TransportFail"

def resultName (c : Call) (r : Result) : String :=
  let w := if r.wrote then ":w" else ":-"
  match c with
  | .close _ _ => "ok" ++ w
  | .onPing _ => "ping" ++ w
  | .onClose _ _ => (if r.alt then "closed+disconnected" else "closing") ++ w
  | .autoPing => "poll" ++ w
  | .onData _ => "text" ++ w
  | .onData2 _ _ => "text" ++ w
  | .connect => (if r.alt then "connecting+connect_fail" else "connecting+connected+ready+poll") ++ w
  | .abandon => "abandoned" ++ w
  | _ => (match r.err with | none => "ok" | some e => errName e) ++ w

def showChunk (cfg : Threads.Cfg) (c : Chunk) : String :=
  "W" ++ toString c.tid ++ "." ++ toString c.idx ++ (if c.second then "b" else "a") ++ ":" ++
    (if isCompressed c.desc.pay then "z" else hexOfBytes (chunkBytes cfg c))

def showZFrame (c : Chunk) : Option String :=
  match c.desc.pay with
  | .plain _ => none
  | .deflated ctx out =>
    some ("F" ++ toString c.tid ++ "." ++ toString c.idx ++ ":" ++ toString c.desc.op ++ ":" ++ hexOfBytes ctx ++ ":" ++ hexOfBytes out)

def parseCfg (cfgS : String) : Threads.Variant × Threads.Cfg :=
  let ct := cfgS.splitOn " "
  let vs := kv ct "v" "00"
  let z := kv ct "z" "0"
  ({ compressUnderLock := (vs.toList.getD 0 '0') == '1', closeAtomic := (vs.toList.getD 1 '0') == '1' },
   { deflate := z ≠ "0", noTakeover := z = "2" || z = "4", serverNoTakeover := z = "3" || z = "4",
     key := fun t i => testKey (t * 16 + i) })

/-- the socket of the general model: `n=<chunks per sendall>` (default 2), `nn=<t>.<i>:<n>,...` (per call),
    `fail=<t>.<i>.<k>,...` (the sendall of call i of thread t raises once k chunks are out);
    chunk sizes: the chunks before the last one have `len / n` bytes each -/
def parseEnv (cfgS : String) : Threads.Env :=
  let ct := cfgS.splitOn " "
  let n := natOf (kv ct "n" "2")
  let nn : List (Nat × Nat × Nat) := ((kv ct "nn" "").splitOn ",").filterMap fun e =>
    match e.splitOn ":" with
    | [k, v] => (match k.splitOn "." with | [a, b] => some (natOf a, natOf b, natOf v) | _ => none)
    | _ => none
  let fl : List (Nat × Nat × Nat) := ((kv ct "fail" "").splitOn ",").filterMap fun e =>
    match e.splitOn "." with
    | [a, b, k] => some (natOf a, natOf b, natOf k)
    | _ => none
  let more : Tid → Nat → Nat := fun t i =>
    (match nn.find? (fun x => x.1 == t && x.2.1 == i) with | some x => x.2.2 | none => n) - 1
  { more := more,
    failAt := fun t i => (fl.find? (fun x => x.1 == t && x.2.1 == i)).map (·.2.2),
    sizes := fun t i len => List.replicate (more t i) (len / (more t i + 1)) }

def traceOfN (env : Threads.Env) (v : Threads.Variant) (cfg : Threads.Cfg) : State → List Tid → List String
  | _, [] => []
  | s, t :: r => ("x" ++ toString t ++ ":" ++ entryName v cfg s t) :: traceOfN env v cfg (stepN env v cfg s t) r

/-- every chunk with its bytes: the `j`-th chunk of a frame carries the frame's `j`-th piece -/
def showChunksN (env : Threads.Env) (cfg : Threads.Cfg) (isReq : Chunk → Bool) : List Chunk → List Chunk → List String
  | _, [] => []
  | pre, c :: r =>
    ("W" ++ toString c.tid ++ "." ++ toString c.idx ++ (if c.second then "b" else "a") ++ ":" ++
      (if isReq c then "req"
       else if isCompressed c.desc.pay then "z" else hexOfBytes ((pieces env cfg c).getD (sentOf pre c.tid c.idx) []))) ::
      showChunksN env cfg isReq (pre ++ [c]) r

def runThreads (line : String) : String :=
  match line.splitOn " | " with
  | [cfgS, progS, schedS] =>
    let (v, cfg) := parseCfg cfgS
    let ps := parseProgs progS
    let sched := parseSched schedS
    let env := parseEnv cfgS
    -- a loop program that starts with `cn`: the run starts before the connection exists
    let pre := ps.any fun p => p.head? == some Call.connect
    let s0 := if pre then initPre (progsOf ps) else init (progsOf ps)
    -- the chunks of the HTTP request (a placeholder frame on the model's wire: its position counts, its bytes are not modelled)
    let isReq : Chunk → Bool := fun c => (ps.getD c.tid []).getD c.idx .autoPing == Call.connect
    let s := runN env v cfg s0 sched
    let tr := traceOfN env v cfg s0 sched
    let res : List String := (List.range ps.length).flatMap fun t =>
      let th := s.th t
      (th.results.zipIdx).map fun (r, i) =>
        "R" ++ toString t ++ "." ++ toString i ++ ":" ++ resultName ((ps.getD t []).getD i .autoPing) r
    let w := s.sh.wire
    let peer := match peerDecode cfg.noTakeover [] (frames w) with
      | none => "fail"
      | some ms => if ms.all (fun m => ((ps.getD m.1 []).getD m.2.1 .autoPing).msg == m.2.2) then "ok" else "wrong"
    " ".intercalate (tr ++ showChunksN env cfg isReq [] w ++ (frames w).filterMap showZFrame ++ res ++
      ["END:closing=" ++ b2s s.sh.closing ++ ":closed=" ++ b2s s.sh.closed ++ ":sock=" ++ b2s s.sh.sockOpen ++
       ":shut=" ++ b2s s.sh.sockShut ++
       ":lock=" ++ (match s.sh.lock with | none => "-" | some t => toString t) ++
       ":whole=" ++ b2s (wholeN env w) ++ ":closes=" ++ toString (closeCount w) ++
       ":after=" ++ b2s (!nothingAfterClose w) ++ ":afterw=" ++ b2s (!nothingAfterWholeClose w) ++ ":peer=" ++ peer])
  | _ => "bad-op"

/-- `threads-enum v=.. z=.. pb=<n|-> | <progs>`: every maximal schedule of enabled steps -/
def runEnum (line : String) : String :=
  match line.splitOn " | " with
  | [cfgS, progS] =>
    let (v, cfg) := parseCfg cfgS
    let ps := parseProgs progS
    let pbS := kv (cfgS.splitOn " ") "pb" "-"
    let pb := if pbS = "-" then 1000000 else natOf pbS
    let pre := ps.any fun p => p.head? == some Call.connect
    let scheds := enumerateN (parseEnv cfgS) v cfg ps.length 400 (if pre then initPre (progsOf ps) else init (progsOf ps)) none pb
    " ".intercalate (scheds.map fun sc => String.join (sc.map toString))
  | _ => "bad-op"

end Thr

/-! ### composed models (Model/PersistLink.lean, Model/ConnectLink.lean) -/

/-- whole units of a pass-through parameter token (`5/1`, `N`) -/
def natOfTok (t : String) : Nat :=
  if t = "N" then 0 else (ratOf t).floor.toNat

/-- C16: `persistcore <cfg> || <draw> <exit> ## <core line> || …` — `persist()` over the core model:
    each attempt is one `core` line (its own `poll` / `prate` / `ptimeout` are overridden by persist's) -/
def runPersistCore (line : String) : String :=
  match line.splitOn " || " with
  | [] => "bad-op"
  | cfgS :: secs =>
    let ct := cfgS.splitOn " "
    let pollT := kv ct "poll" "5/1"
    let prateT := kv ct "prate" "30/1"
    let ptimeoutT := kv ct "ptimeout" "N"
    let cfg : Persist.Cfg Nat :=
      { minWait := ratOf (kv ct "min" "5"), maxWait := ratOf (kv ct "max" "30"),
        poll := natOfTok pollT, pingRate := natOfTok prateT, pingTimeout := natOfTok ptimeoutT }
    let attempts : List (Option PersistLink.Attempt) := secs.map fun sec =>
      match sec.splitOn " ## " with
      | [hd, coreS] =>
        match (hd.splitOn " ").filter (fun w => w ≠ ""), coreS.splitOn " | " with
        | [u, x], [cfgC, envS, reactS] =>
          let (c, react, env) := coreOfParts cfgC envS reactS
          some { base := c, react := react, env := env, draw := ratOf u, exit := x = "1" }
        | _, _ => none
      | _ => none
    if attempts.any Option.isNone then "bad-op"
    else
      let res := PersistLink.persistCore cfg (attempts.filterMap id)
      let showO : Persist.Obs Event Nat → String
        | .connect _ _ _ => "C:" ++ pollT ++ "," ++ prateT ++ "," ++ ptimeoutT
        | .yield (.ev e) => showEvent e
        | .yield (.backOff d) => "B:" ++ showRat d
        | .random => "R"
        | .wait d => "X:" ++ showRat d
      " ".intercalate (res.1.map showO ++
        [match res.2 with | .exited => "END:exited" | .running => "END:running" | .inAttempt => "INCOMPLETE"])

def showCall : Connect.Call → String
  | .socket i => "socket" ++ toString i
  | .connect i => "connect" ++ toString i
  | .close i => "close" ++ toString i

/-- C09 / C19: `link url=… http=… https=… wrap=… sel=… pclose=… block=… gai=<-|o1,o2,…> | <reads> | <core cfg> | <env> | <reactions>`
    — one connection attempt (`ConnectLink.attempt`): when it ends, the composed trace (`ConnectLink.composed`): core
    observations as in `core`, connection-phase actions as `P:<proxy token>`, socket-module calls as `S:<call>`;
    when a `recv` never returns (`block=1` and a silent proxy), what happened before it and then
    `P:R:BLOCKS-FOREVER HUNG:…` as `linkworld.run_link` prints it.  `wfail` (in the core section) counts the
    `sendall`s of the whole connection; `conn` there is ignored. -/
def runLink (line : String) : String :=
  match line.splitOn " | " with
  | [linkS, readsS, cfgS, envS, reactS] =>
    let lt := linkS.splitOn " "
    let (base, react, env) := coreOfParts cfgS envS reactS
    match Proxy.mkTarget (hexD (kv lt "url" "")) with
    | none => "CTOR:ValueError"
    | some tgt =>
      let g := kv lt "gai" "ok"
      let gai : Option (List Connect.AddrOutcome) :=
        if g = "-" then none
        else if g = "" then some []
        else some ((g.splitOn ",").map fun t =>
          if t = "ok" then Connect.AddrOutcome.ok else if t = "sfail" then .sockCreateFail else .connectFail)
      let i : ConnectLink.Inputs :=
        { ws := { target := tgt, proxyHttp := optHex (kv lt "http" "-"), proxyHttps := optHex (kv lt "https" "-"),
                  request := base.request }
          gai := gai
          writeFails := base.writeFails
          reads := (readsS.splitOn " ").filterMap parseRead
          wrapOk := kv lt "wrap" "1" = "1"
          selOk := kv lt "sel" "1" = "1"
          -- code shape found by the harness's probe of the real `_connect_proxy` (finding D11)
          pclose := kv lt "pclose" "1" = "1"
          -- code shape found by the harness's probe of the real `_connect` (is `settimeout(None)` called before the first `recv`?)
          blockBeforeTunnel := kv lt "block" "0" = "1" }
      let showItem : ConnectLink.Item → String
        | .core o => showObs o
        | .io x => "P:" ++ showIo x
        | .sock c => "S:" ++ showCall c
      match ConnectLink.attempt base i react env with
      | .ended tr =>
        let s := runAll (ConnectLink.coreCfg base i) react env
        " ".intercalate (tr.map showItem ++ [showEnd s])
      | .hung tr =>
        " ".intercalate (tr.map showItem ++ ["P:R:BLOCKS-FOREVER", "HUNG:recv-on-a-blocking-socket-and-the-proxy-is-silent"])
  | _ => "bad-op"

def handle (line : String) : String :=
  if line.startsWith "core " then runCore (line.drop 5).toString
  else if line.startsWith "corez " then runCoreZ (line.drop 6).toString
  else if line.startsWith "persist " then runPersist (line.drop 8).toString
  else if line.startsWith "persistcore " then runPersistCore (line.drop 12).toString
  else if line.startsWith "link " then runLink (line.drop 5).toString
  else if line.startsWith "threads-enum " then Thr.runEnum (line.drop 13).toString
  else if line.startsWith "threads " then Thr.runThreads (line.drop 8).toString
  else if line.startsWith "connect " then runConnect (line.drop 8).toString
  else if line.startsWith "proxy " then runProxy (line.drop 6).toString
  else if line.startsWith "xport " then runXport (line.drop 6).toString
  else
    match line.splitOn " " with
    | "utf8" :: args => runUtf8 args
    | "deflateopts" :: args => runDeflateOpts args
    | "inflate" :: args => runInflate false args
    | "inflatesafe" :: args => runInflate true args
    | "frame" :: args => runFrame args
    | "http" :: args => runHttp args
    | "deflenc" :: args => runDeflEnc args
    | "reconnect" :: args => Reconnect.runDriver args
    | "closesock" :: args => CloseSock.runDriver args
    -- differential test of harness/py2lean.py: evaluate a generated definition
    | "gen" :: name :: args => Gen.Code.dispatch name args
    | _ => "bad-op"

end Lomond.Driver
