/-
  SHA-1 (FIPS 180-4 §5.1.1, §6.1) over `List Nat` bytes: executable, total, no proofs.

  `hashlib.sha1(m).digest()` is `sha1 m`.  32-bit words are natural numbers kept below 2^32 by an
  explicit `% 2^32` (all operations used — `+ % &&& ||| ^^^ <<< >>>` on `Nat` — are evaluated by
  GMP in the kernel and on unboxed scalars in compiled code, so the same definition serves
  `decide +kernel` and the driver).

  The accept value of the opening handshake (`b64encode(sha1(key + WS_KEY).digest())`) is
  `Handshake.acceptFor` in `Model/Handshake.lean`, which imports this file.
-/
import Lomond.Model.Basic

namespace Lomond.Sha1
open Lomond

/-- `ROTL^n(x)` on 32-bit words (§3.2) -/
def rotl (n x : Nat) : Nat := ((x <<< n) ||| (x >>> (32 - n))) % 4294967296

/-- the five working variables / the intermediate hash value `H0..H4` -/
structure State where
  a : Nat
  b : Nat
  c : Nat
  d : Nat
  e : Nat
  deriving Repr, DecidableEq

/-- §5.3.1 -/
def init : State := ⟨0x67452301, 0xEFCDAB89, 0x98BADCFE, 0x10325476, 0xC3D2E1F0⟩

/-- `f_t(x, y, z)` (§4.1.1): Ch, Parity, Maj, Parity -/
def f (t x y z : Nat) : Nat :=
  if t < 20 then (x &&& y) ||| ((x ^^^ 0xFFFFFFFF) &&& z)
  else if t < 40 then x ^^^ y ^^^ z
  else if t < 60 then (x &&& y) ||| (x &&& z) ||| (y &&& z)
  else x ^^^ y ^^^ z

/-- `K_t` (§4.2.1) -/
def k (t : Nat) : Nat :=
  if t < 20 then 0x5A827999 else if t < 40 then 0x6ED9EBA1 else if t < 60 then 0x8F1BBCDC else 0xCA62C1D6

/-- §5.1.1: append the bit 1, then `k` zero bits up to 448 mod 512, then the bit length on 64 bits -/
def pad (msg : Bytes) : Bytes :=
  msg ++ 128 :: (List.replicate ((119 - msg.length % 64) % 64) 0 ++ beBytes 8 (8 * msg.length))

/-- big-endian 32-bit words of a byte string (a trailing group of fewer than four bytes is dropped;
    padded messages have none) -/
def words : Bytes → List Nat
  | a :: b :: c :: d :: r => (((a * 256 + b) * 256 + c) * 256 + d) % 4294967296 :: words r
  | _ => []

/-- `n` further words of the message schedule; `w` = the 16 words before them, oldest first:
    `W_t = ROTL^1(W_{t-3} ⊕ W_{t-8} ⊕ W_{t-14} ⊕ W_{t-16})` -/
def expand : Nat → List Nat → List Nat
  | 0, _ => []
  | n + 1, w =>
    let x := rotl 1 (w.getD 13 0 ^^^ w.getD 8 0 ^^^ w.getD 2 0 ^^^ w.getD 0 0)
    x :: expand n (w.drop 1 ++ [x])

/-- `W_0 .. W_79` of one 64-byte block -/
def schedule (block : Bytes) : List Nat :=
  let w := words block
  w ++ expand 64 w

/-- step 3 of §6.1.2 for one `t` -/
def round (s : State) (t w : Nat) : State :=
  { a := (rotl 5 s.a + f t s.b s.c s.d + s.e + k t + w) % 4294967296
    b := s.a, c := rotl 30 s.b, d := s.c, e := s.d }

/-- the rounds `t, t+1, …` over the remaining schedule words -/
def rounds (s : State) : Nat → List Nat → State
  | _, [] => s
  | t, w :: ws => rounds (round s t w) (t + 1) ws

/-- §6.1.2 for one block: schedule, 80 rounds, add to the intermediate hash value -/
def compress (h : State) (block : Bytes) : State :=
  let s := rounds h 0 (schedule block)
  { a := (h.a + s.a) % 4294967296, b := (h.b + s.b) % 4294967296, c := (h.c + s.c) % 4294967296
    d := (h.d + s.d) % 4294967296, e := (h.e + s.e) % 4294967296 }

/-- `n` blocks of 64 bytes -/
def hashBlocks : Nat → State → Bytes → State
  | 0, h, _ => h
  | n + 1, h, bs => hashBlocks n (compress h (bs.take 64)) (bs.drop 64)

def State.bytes (h : State) : Bytes :=
  beBytes 4 h.a ++ beBytes 4 h.b ++ beBytes 4 h.c ++ beBytes 4 h.d ++ beBytes 4 h.e

/-- `hashlib.sha1(msg).digest()`: 20 bytes -/
def sha1 (msg : Bytes) : Bytes :=
  let p := pad msg
  (hashBlocks (p.length / 64) init p).bytes

end Lomond.Sha1
