/-
  Line-protocol driver for the executable model.  One operation per input line, one
  canonical output line per operation.  Imports model files only (no proofs, no Mathlib).
-/
import Lomond.Model.Basic
import Lomond.Model.Utf8
import Lomond.Model.Frame
import Lomond.Model.Http
import Lomond.Model.Core
import Lomond.Model.Handshake
import Lomond.Model.Driver

open Lomond

partial def loop (h : IO.FS.Stream) (out : IO.FS.Stream) : IO Unit := do
  let line ← h.getLine
  if line.isEmpty then return ()
  let l := (line.dropRightWhile (fun c => c == '\n' || c == '\r'))
  out.putStrLn (Driver.handle l)
  loop h out

def main : IO Unit := do
  let stdin ← IO.getStdin
  let stdout ← IO.getStdout
  loop stdin stdout
  stdout.flush
